#!/venv/bin/python
"""Sensitivity self-test: apply each catalogued mutant to /repo's working
tree, run the property's check, expect exit 1, undo.  Never commits.
usage: mutants.py [id-substring ...]   (run only while nothing else uses /repo)"""
import json, os, subprocess, sys
ROOT = os.path.dirname(os.path.dirname(os.path.abspath(__file__)))
cat = json.load(open(os.path.join(ROOT, "mutants", "catalogue.json")))
want = sys.argv[1:]
dirty = subprocess.run(["git", "-C", "/repo", "status", "--porcelain"], capture_output=True, text=True).stdout.strip()
if dirty:
    print("refusing: /repo working tree is not clean"); sys.exit(2)
results = []
for m in cat:
    if want and not any(w in m["id"] for w in want):
        continue
    path = os.path.join("/repo", m["file"])
    src = open(path).read()
    if m["old"] not in src:
        print(m["id"], "PATTERN-NOT-FOUND"); results.append((m["id"], "stale")); continue
    try:
        open(path, "w").write(src.replace(m["old"], m["new"], 1))
        cmd = [os.path.join(ROOT, "vcheck"), m["property"], "--no-evidence"] + m.get("args", [])
        proc = subprocess.run(cmd, capture_output=True, text=True, cwd=ROOT, timeout=1800)
        vio = [l for l in proc.stdout.splitlines() if l.startswith("VIOLATION") or l.strip().startswith("class=")]
        verdict = "CAUGHT" if proc.returncode == 1 else f"MISSED(exit {proc.returncode})"
        print(m["id"], verdict, "; ".join(v.strip() for v in vio[:2]))
        if proc.returncode not in (0, 1):
            print(proc.stdout[-1500:])
        results.append((m["id"], verdict))
    finally:
        subprocess.run(["git", "-C", "/repo", "checkout", "--", m["file"]], check=True)
print(sum(1 for r in results if r[1] == "CAUGHT"), "of", len(results), "caught")
