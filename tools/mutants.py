#!/venv/bin/python
"""Sensitivity self-test: each catalogued mutant is applied to a scratch
git worktree of /repo (under /dev/shm, removed afterwards), the property's
check is run against that worktree (VERIF_REPO), and must exit 1.
usage: mutants.py [id-substring ...]"""
import json, os, subprocess, sys, tempfile, shutil
ROOT = os.path.dirname(os.path.dirname(os.path.abspath(__file__)))
cat = json.load(open(os.path.join(ROOT, "mutants", "catalogue.json")))
want = sys.argv[1:]
wt = tempfile.mkdtemp(prefix="mutwt_", dir="/dev/shm")
os.rmdir(wt)
subprocess.run(["git", "-C", "/repo", "worktree", "add", "--detach", "-q", wt, "HEAD"], check=True)
results = []
try:
    for m in cat:
        if want and not any(w in m["id"] for w in want):
            continue
        path = os.path.join(wt, m["file"])
        src = open(path).read()
        if m["old"] not in src:
            print(m["id"], "PATTERN-NOT-FOUND"); results.append((m["id"], "stale")); continue
        try:
            open(path, "w").write(src.replace(m["old"], m["new"], 1))
            cmd = [os.path.join(ROOT, "vcheck"), m["property"], "--no-evidence"] + m.get("args", [])
            env = dict(os.environ, VERIF_REPO=wt)
            proc = subprocess.run(cmd, capture_output=True, text=True, cwd=ROOT, timeout=3000, env=env)
            vio = [l for l in proc.stdout.splitlines() if l.startswith("VIOLATION") or l.strip().startswith("class=")]
            verdict = "CAUGHT" if proc.returncode == 1 else f"MISSED(exit {proc.returncode})"
            print(m["id"], verdict, "; ".join(v.strip() for v in vio[:2]), flush=True)
            if proc.returncode not in (0, 1):
                print(proc.stdout[-1500:], proc.stderr[-500:])
            results.append((m["id"], verdict))
        finally:
            open(path, "w").write(src)
finally:
    subprocess.run(["git", "-C", "/repo", "worktree", "remove", "--force", wt])
    shutil.rmtree(wt, ignore_errors=True)
print(sum(1 for r in results if r[1] == "CAUGHT"), "of", len(results), "caught")
