#!/venv/bin/python
"""Build-time cross-validation of checks/c14_grammar.py against the real
_validate_child of the tree in /repo (run by hand on the pinned tree; not
part of any check: at run time only the frozen grammar judges)."""
import os, sys
sys.path.insert(0, os.path.dirname(os.path.dirname(os.path.abspath(__file__))))
os.environ.setdefault("PSYCLONE_CONFIG", "/repo/config/psyclone.cfg")
from checks import c14_grammar as G
from checks.c14 import World
w = World([])
bad = 0
n = 0
for pk in G.KINDS:
    for ck in G.KINDS:
        for pos in range(0, 8):
            parent = w.make_leaf(pk)
            child = w.make_leaf(ck)
            real = bool(parent._validate_child(pos, child))
            mine = G.allowed(pk, pos, ck)
            n += 1
            if real != mine:
                bad += 1
                print("MISMATCH", pk, pos, ck, "real", real, "grammar", mine)
print(f"{n} triples compared, {bad} mismatches")
sys.exit(1 if bad else 0)
