#!/venv/bin/python
"""Build-time cross-validation of the frozen GOcean region table
(checks/c25_table.py) against GOLoop.setup_bounds of the tree it is run on.
Not part of any check: at run time only the frozen copy judges."""
import os, sys
sys.path.insert(0, os.path.dirname(os.path.dirname(os.path.abspath(__file__))))
os.environ.setdefault("PSYCLONE_CONFIG", "/repo/config/psyclone.cfg")
from checks.c25_table import TABLE
from psyclone.configuration import Config
Config.get().api = "gocean"
from psyclone.gocean1p0 import GOLoop
GOLoop._bounds_lookup = {}
GOLoop.setup_bounds()
live = {}
for off, a in GOLoop._bounds_lookup.items():
    for pt, b in a.items():
        for its, e in b.items():
            if e:
                live[f"{off}:{pt}:{its}"] = [e["outer"]["start"], e["outer"]["stop"],
                                            e["inner"]["start"], e["inner"]["stop"]]
bad = [k for k in sorted(set(live) | set(TABLE)) if live.get(k) != TABLE.get(k)]
print("entries:", len(TABLE), "differences:", bad)
sys.exit(1 if bad else 0)
