#!/venv/bin/python
"""List all violation classes of a batch (debug helper, no evidence)."""
import os, sys, collections
sys.path.insert(0, os.path.dirname(os.path.dirname(os.path.abspath(__file__))))
os.environ.setdefault("PSYCLONE_CONFIG", "/repo/config/psyclone.cfg")
from simkit import runner, perf; perf.install()
from simkit.core import canon
prop = sys.argv[1]; n = int(sys.argv[2]); seed = int(sys.argv[3]) if len(sys.argv) > 3 else 0
check = runner.load_check(prop)
if hasattr(check, "prepare"):
    import atexit; check.prepare(); atexit.register(check.cleanup)
plan = dict(check.plan("quick")); plan["runs"] = n
res, errs, st = runner.explore(check, seed, "quick", plan, 16)
cls = collections.Counter(); ex = {}
for r in res:
    for v in r.get("violations", []):
        cls[v["class"]] += 1
        ex.setdefault(v["class"], (r["index"], v))
for c, k in cls.most_common():
    print(k, c)
    print("   e.g. run", ex[c][0], canon(ex[c][1]["replay"].get("schedule"))[:700])
    print("   observed", canon(ex[c][1]["replay"].get("observed"))[:500])
print("errors", errs[:3])
