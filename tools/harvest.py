#!/venv/bin/python
"""Write one minimised replay per violation class of a batch into a dir
(used to collect witnesses for known_findings.json before a fix lands)."""
import os, sys, json, collections
sys.path.insert(0, os.path.dirname(os.path.dirname(os.path.abspath(__file__))))
os.environ.setdefault("PSYCLONE_CONFIG", "/repo/config/psyclone.cfg")
from simkit import runner, perf; perf.install()
from simkit.core import canon
prop = sys.argv[1]; n = int(sys.argv[2]); out = sys.argv[3]
seed = int(sys.argv[4]) if len(sys.argv) > 4 else 0
check = runner.load_check(prop)
if hasattr(check, "prepare"):
    import atexit; check.prepare(); atexit.register(check.cleanup)
plan = dict(check.plan("quick")); plan["runs"] = n
res, errs, st = runner.explore(check, seed, "quick", plan, 16)
best = {}
for r in res:
    for v in r.get("violations", []):
        size = len(canon(v["replay"]))
        key = v["class"]
        if hasattr(check, "harvest_key"):
            key += "|" + check.harvest_key(v)
        if key not in best or size < best[key][0]:
            best[key] = (size, v["replay"])
os.makedirs(out, exist_ok=True)
for cls, (size, rep) in sorted(best.items()):
    name = "".join(ch if ch.isalnum() or ch in "-_." else "-" for ch in cls)[:120] + ".json"
    json.dump(rep, open(os.path.join(out, name), "w"), indent=1, sort_keys=True, default=repr)
    print(cls, size, name)
print("errors", errs[:2])
