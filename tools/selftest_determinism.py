#!/venv/bin/python
"""Determinism self-test (DESIGN 3.8): the event-log digest of every run must
be identical across repeated executions, worker counts and PYTHONHASHSEED
values in fresh interpreters.
usage: selftest_determinism.py <PROP> [runs=400] [seed=0]"""
import os, subprocess, sys
ROOT = os.path.dirname(os.path.dirname(os.path.abspath(__file__)))
prop = sys.argv[1]
runs = sys.argv[2] if len(sys.argv) > 2 else "400"
seed = sys.argv[3] if len(sys.argv) > 3 else "0"

def once(hashseed, workers):
    env = dict(os.environ, VERIF_HASHSEED=hashseed, VERIF_SEED=seed)
    env.pop("PYTHONHASHSEED", None)
    out = subprocess.run([os.path.join(ROOT, "vcheck"), prop, "--digests",
                          "--no-evidence", "--runs", runs, "--workers",
                          str(workers)], env=env, capture_output=True,
                         text=True, cwd=ROOT).stdout
    return {l.split()[1]: l.split()[2] for l in out.splitlines()
            if l.startswith("DIGEST")}

ref = once("0", 16)
bad = 0
for hs, wk in (("0", 16), ("0", 3), ("1", 16), ("7", 5)):
    got = once(hs, wk)
    diff = [k for k in ref if got.get(k) != ref[k]]
    print(f"{prop}: hashseed={hs} workers={wk}: {len(got)} runs, "
          f"{len(diff)} digests differ")
    bad += len(diff) + (len(got) != len(ref))
if len(ref) == 0 or any(v == "None" for v in ref.values()):
    print("no digests produced"); bad += 1
print("DETERMINISM", "FAILED" if bad else "OK", prop, len(ref), "runs x 5 executions")
sys.exit(1 if bad else 0)
