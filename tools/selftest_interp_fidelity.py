#!/venv/bin/python
"""Fidelity self-test of the E3 stub (DESIGN 3.8): generated *serial*
programs are compiled with gfortran and executed; the printed final state
must equal the interpreter's.  This validates the stub; it is not a
property check and its result is not evidence for any property.
usage: selftest_interp_fidelity.py [nprograms=300] [seed=0] [--acc]
--acc: the C13 workload (simkit/accgen.py: arrays of extent n, calls of
helper routines with by-reference arrays) instead of the C08/C09 one."""
import os, subprocess, sys, tempfile, shutil
ROOT = os.path.dirname(os.path.dirname(os.path.abspath(__file__)))
sys.path.insert(0, ROOT)
os.environ.setdefault("PSYCLONE_CONFIG", "/repo/config/psyclone.cfg")
from concurrent.futures import ProcessPoolExecutor
import multiprocessing
from simkit import fgen, interp
from simkit.core import stream, run_seed

ARGS = ["n"] + fgen.REAL_ARRAYS + fgen.REAL_ARRAYS2 + fgen.INT_ARRAYS + \
    fgen.REAL_SCALARS + fgen.INT_SCALARS


def driver_text():
    L = ["program drv", "  implicit none", "  integer :: n"]
    for a in fgen.REAL_ARRAYS:
        L.append(f"  real :: {a}({fgen.R1[0]}:{fgen.R1[1]})")
    for a in fgen.REAL_ARRAYS2:
        L.append(f"  real :: {a}({fgen.R2[0]}:{fgen.R2[1]},{fgen.R2[0]}:{fgen.R2[1]})")
    for a in fgen.INT_ARRAYS:
        L.append(f"  integer :: {a}({fgen.R1[0]}:{fgen.R1[1]})")
    L.append("  real :: " + ", ".join(fgen.REAL_SCALARS))
    L.append("  integer :: " + ", ".join(fgen.INT_SCALARS))
    L.append("  open(10, file='in.txt')")
    for v in ARGS:
        L.append(f"  read(10,*) {v}")
    L.append(f"  call sub({', '.join(ARGS)})")
    for v in ARGS[1:]:
        if v in fgen.INT_ARRAYS or v in fgen.INT_SCALARS:
            L.append(f"  write(*,'(A)') '{v}'")
            L.append(f"  write(*,'(I12)') {v}")
        else:
            L.append(f"  write(*,'(A)') '{v}'")
            L.append(f"  write(*,'(ES27.17E3)') {v}")
    L.append("end program drv")
    return "\n".join(L) + "\n"


def acc_driver_text():
    from simkit import accgen
    L = ["program drv", "  implicit none", "  integer :: n"]
    for a in accgen.R1:
        L.append(f"  real, allocatable :: {a}(:)")
    for a in accgen.R2:
        L.append(f"  real, allocatable :: {a}(:,:)")
    for a in accgen.IARR:
        L.append(f"  integer, allocatable :: {a}(:)")
    L.append("  real :: " + ", ".join(accgen.RS))
    L.append("  integer :: " + ", ".join(accgen.IS))
    L.append("  open(10, file='in.txt')")
    L.append("  read(10,*) n")
    L.append("  allocate(" + ", ".join(f"{a}(n)" for a in accgen.R1 + accgen.IARR)
             + ", " + ", ".join(f"{a}(n,n)" for a in accgen.R2) + ")")
    args = ["n"] + accgen.R1 + accgen.R2 + accgen.IARR + accgen.RS + accgen.IS
    for v in args[1:]:
        L.append(f"  read(10,*) {v}")
    L.append(f"  call sub({', '.join(args)})")
    for v in args[1:]:
        L.append(f"  write(*,'(A)') '{v}'")
        if v in accgen.IARR or v in accgen.IS:
            L.append(f"  write(*,'(I12)') {v}")
        else:
            L.append(f"  write(*,'(ES27.17E3)') {v}")
    L.append("end program drv")
    return "\n".join(L) + "\n", args


def one(args):
    global ARGS
    idx, seed, acc = args
    rs = run_seed(seed, "FIDELITY", idx)
    from psyclone.psyir.frontend.fortran import FortranReader
    from psyclone.psyir.nodes import Routine
    if acc:
        from simkit import accgen
        prog = accgen.gen_program(stream(rs, "program"))
        inputs = accgen.gen_inputs(stream(rs, "inputs"))
        text = accgen.program_text(prog)
        drv, ARGS = acc_driver_text()
    else:
        prog = fgen.gen_program(stream(rs, "program"))
        inputs = fgen.gen_inputs(stream(rs, "inputs"))
        text = fgen.program_text(prog)
        drv = driver_text()
    try:
        psyir = FortranReader().psyir_from_source(text)
        store = interp.make_store(inputs)
        ctx = interp.Ctx()
        ctx.routines = {r.name.lower(): r for r in psyir.walk(Routine)}
        interp.run_serial(psyir.walk(Routine)[0].children, store, ctx)
    except (interp.RuntimeFault, interp.Unsupported) as err:
        return ("skipped", str(err))
    tmp = tempfile.mkdtemp(prefix="fid", dir="/dev/shm")
    try:
        open(os.path.join(tmp, "sub.f90"), "w").write(text)
        open(os.path.join(tmp, "drv.f90"), "w").write(drv)
        with open(os.path.join(tmp, "in.txt"), "w") as f:
            for v in ARGS:
                val = inputs[v]
                if isinstance(val, dict):
                    f.write(" ".join(repr(x) for x in val["data"]) + "\n")
                else:
                    f.write(repr(val) + "\n")
        cp = subprocess.run(["gfortran", "-O0", "-fdefault-real-8", "-fcheck=bounds",
                             "-o", "a.out", "sub.f90", "drv.f90"], cwd=tmp,
                            capture_output=True, text=True)
        if cp.returncode != 0:
            return ("compile-error", cp.stderr[-400:] + text)
        rp = subprocess.run(["./a.out"], cwd=tmp, capture_output=True, text=True, timeout=20)
        if rp.returncode != 0:
            return ("run-error", rp.stderr[-300:] + text)
        got = {}
        cur = None
        for line in rp.stdout.split("\n"):
            line = line.strip()
            if not line:
                continue
            if line in ARGS:
                cur = line; got[cur] = []
            else:
                got[cur].append(float(line))
        for v in ARGS[1:]:
            mine = store[v]
            mine = list(mine.data) if isinstance(mine, interp.Arr) else [mine]
            if len(mine) != len(got[v]) or any(float(a) != b and not (float(a) != float(a) and b != b) for a, b in zip(mine, got[v])):
                bad = [i for i, (a, b) in enumerate(zip(mine, got[v])) if float(a) != b][:3]
                return ("MISMATCH", f"{v} at {bad}: interp {[mine[i] for i in bad]} gfortran {[got[v][i] for i in bad]}\n{text}\nn={inputs['n']}")
        return ("ok", None)
    finally:
        shutil.rmtree(tmp, ignore_errors=True)


if __name__ == "__main__":
    nums = [a for a in sys.argv[1:] if not a.startswith("--")]
    n = int(nums[0]) if nums else 300
    seed = int(nums[1]) if len(nums) > 1 else 0
    ctx = multiprocessing.get_context("fork")
    with ProcessPoolExecutor(16, mp_context=ctx) as ex:
        res = list(ex.map(one, [(i, seed, "--acc" in sys.argv)
                                for i in range(n)], chunksize=4))
    import collections
    cnt = collections.Counter(r[0] for r in res)
    print(dict(cnt))
    for r in res:
        if r[0] not in ("ok", "skipped"):
            print(r[0], r[1][:1500]); break
    sys.exit(0 if cnt.get("MISMATCH", 0) + cnt.get("compile-error", 0) + cnt.get("run-error", 0) == 0 else 1)
