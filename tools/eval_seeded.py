#!/venv/bin/python
"""Evaluate a seeded change produced by a sub-agent.
usage: eval_seeded.py <seed-id> <PROP> <worktree> <outdir-from-agent> [--suite]
Runs the agent's demo against the changed tree and against /repo, runs the
property's quick check against the changed tree (VERIF_REPO), optionally the
full test-suite in the changed tree, and files everything under
/verif/seeded/<seed-id>/ (patch.diff, demo.py, notes.md, meta.json)."""
import json, os, shutil, subprocess, sys, time
ROOT = os.path.dirname(os.path.dirname(os.path.abspath(__file__)))
sid, prop, wt, out = sys.argv[1:5]
suite = "--suite" in sys.argv
dst = os.path.join(ROOT, "seeded", sid)
os.makedirs(dst, exist_ok=True)
for name in ("patch.diff", "demo.py", "notes.md"):
    if os.path.exists(os.path.join(out, name)):
        shutil.copy(os.path.join(out, name), dst)
meta = {"seed_id": sid, "property": prop, "ran": []}
def demo(tree):
    env = dict(os.environ, PYTHONPATH=os.path.join(tree, "src"),
               PSYCLONE_CONFIG=os.path.join(tree, "config", "psyclone.cfg"))
    p = subprocess.run(["/venv/bin/python", os.path.join(dst, "demo.py")], env=env,
                       capture_output=True, text=True, timeout=900)
    return p.returncode, (p.stdout + p.stderr)[-600:]
rc_changed, txt_changed = demo(wt)
rc_base, txt_base = demo("/repo")
meta["demo"] = {"changed_tree_exit": rc_changed, "unchanged_tree_exit": rc_base,
                "changed_tail": txt_changed[-300:], "unchanged_tail": txt_base[-200:]}
meta["ran"].append("demo.py with PYTHONPATH=<changed tree>/src and with PYTHONPATH=/repo/src")
print("demo: changed exit", rc_changed, "| unchanged exit", rc_base)
t = time.time()
env = dict(os.environ, VERIF_REPO=wt)
p = subprocess.run([os.path.join(ROOT, "vcheck"), prop, "--no-evidence", "--budget", "900"], env=env,
                   capture_output=True, text=True, cwd=ROOT, timeout=3600)
lines = [l for l in p.stdout.splitlines() if l.startswith("VIOLATION") or l.strip().startswith("class=") or l.startswith(prop + ":")]
meta["check"] = {"cmd": f"VERIF_REPO={wt} ./vcheck {prop} --no-evidence", "exit": p.returncode,
                 "lines": lines[:8], "wall_s": round(time.time() - t, 1)}
meta["caught_by_quick"] = p.returncode == 1
print("check exit", p.returncode); print("\n".join(lines[:6]))
if suite:
    ps = subprocess.run(["/venv/bin/python", "-m", "pytest", "-q", "-p", "no:cacheprovider", "--timeout=900",
                         "-n", "16", "src/psyclone/tests"], cwd=wt, capture_output=True, text=True,
                        env=dict(os.environ, PYTHONPATH=os.path.join(wt, "src")), timeout=3000)
    tail = ps.stdout.strip().splitlines()[-1] if ps.stdout.strip() else ""
    failed = [l for l in ps.stdout.splitlines() if l.startswith("FAILED")]
    meta["suite"] = {"summary": tail, "failed": failed[:10]}
    meta["ran"].append("full suite: pytest -n 16 src/psyclone/tests in the changed tree")
    print("suite:", tail, failed[:3])
json.dump(meta, open(os.path.join(dst, "meta.json"), "w"), indent=1)
