#!/bin/bash
# usage: seedsweep.sh "<props>" "<seeds>" [workers]   (run from /verif; no evidence written)
props=${1:-"C14 C16 C29 C09 C08 C26 C10 C04"}; seeds=${2:-"11 12 13"}; w=${3:-6}
for s in $seeds; do for p in $props; do
  echo "### $p seed=$s"; ./vcheck $p --no-evidence --seed $s --workers $w 2>&1 | grep -v "WARNING\|KNOWN-FINDING" | tail -4
done; done
