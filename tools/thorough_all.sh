#!/bin/bash
# usage: thorough_all.sh "<props>" <seed> <budget-seconds>   (no evidence written)
props=${1:-"C22 C23 C25 C13 C10 C04 C26 C09 C08 C15 C14 C16 C29"}; seed=${2:-11}; b=${3:-1200}
for p in $props; do
  echo "### $p thorough seed=$seed budget=$b"; ./vcheck $p --tier thorough --no-evidence --seed $seed --budget $b 2>&1 | grep -v "WARNING\|KNOWN-FINDING" | tail -6
done
