#!/venv/bin/python
"""Re-run the quick check of every kept seeded change against a scratch
worktree of /repo (under /dev/shm, removed afterwards) with its patch
applied.  usage: recheck_seeded.py [id-substring ...]"""
import glob, json, os, shutil, subprocess, sys, tempfile
ROOT = os.path.dirname(os.path.dirname(os.path.abspath(__file__)))
want = sys.argv[1:]
res = []
for meta_path in sorted(glob.glob(os.path.join(ROOT, "seeded", "*", "meta.json"))):
    sid = os.path.basename(os.path.dirname(meta_path))
    if want and not any(w in sid for w in want):
        continue
    meta = json.load(open(meta_path))
    prop = meta["property"]
    wt = tempfile.mkdtemp(prefix="seedwt_", dir="/dev/shm")
    os.rmdir(wt)
    subprocess.run(["git", "-C", "/repo", "worktree", "add", "--detach", "-q", wt, "HEAD"], check=True)
    try:
        ap = subprocess.run(["git", "-C", wt, "apply", os.path.join(os.path.dirname(meta_path), "patch.diff")],
                            capture_output=True, text=True)
        if ap.returncode != 0:
            print(sid, "PATCH-DOES-NOT-APPLY", ap.stderr.strip()[:200]); res.append((sid, "stale")); continue
        p = subprocess.run([os.path.join(ROOT, "vcheck"), prop, "--no-evidence", "--budget", "900"], capture_output=True, text=True,
                           cwd=ROOT, env=dict(os.environ, VERIF_REPO=wt), timeout=3000)
        lines = [l.strip() for l in p.stdout.splitlines() if l.startswith("VIOLATION") or l.strip().startswith("class=")]
        verdict = "CAUGHT" if p.returncode == 1 else f"MISSED(exit {p.returncode})"
        print(sid, verdict, "; ".join(lines[:2]), flush=True)
        res.append((sid, verdict))
    finally:
        subprocess.run(["git", "-C", "/repo", "worktree", "remove", "--force", wt])
        shutil.rmtree(wt, ignore_errors=True)
print(sum(1 for r in res if r[1] == "CAUGHT"), "of", len(res), "caught")
