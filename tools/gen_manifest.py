#!/venv/bin/python
"""Writes MANIFEST.json from the table below and validates it (and every
evidence file present) against the schemas in /root/.vp."""
import json, os, sys
ROOT = os.path.dirname(os.path.dirname(os.path.abspath(__file__)))

CLAIMED = {
 "C14": dict(
    engine="E2-history",
    technique="deterministic simulation: seeded edit histories with the "
              "system's own refusals as faults, reference model + frozen "
              "grammar, ddmin-minimised replay",
    text="Seeded exploration of bounded histories (<=40 ops) of every public "
         "child-list operation on forests of real PSyIR nodes; after every "
         "operation the links, uniqueness and a frozen child-kind grammar "
         "are checked on final positions, and any refused operation must "
         "leave the forest digest unchanged. Sampling, not proof.",
    design_ref="DESIGN.md 4.4",
    note="Trusts the frozen grammar (cross-validated against the pinned "
         "tree) and that the node kinds in the alphabet are representative."),
 "C16": dict(
    engine="E2-history",
    technique="deterministic simulation: seeded symbol-table operation "
              "histories over nested scopes, refusals as faults, reference "
              "model, ddmin-minimised replay",
    text="Seeded exploration of bounded histories (<=30 ops) of the public "
         "SymbolTable API over five nested real scopes and free-standing "
         "tables with case-variant names, tags, imports and arguments; a "
         "dict-based reference model judges uniqueness, innermost lookup, "
         "freshness of generated names and merge post-conditions after every "
         "step; any refused operation must leave every table's digest "
         "unchanged. Sampling, not proof.",
    design_ref="DESIGN.md 4.5",
    note="Trusts the reference model's reading of scope_limit and of which "
         "symbols merge may legitimately unify (same container / same import "
         "/ both unresolved / both intrinsic)."),
 "C29": dict(
    engine="E1-fsrace",
    technique="deterministic simulation: real PSyclone runs as baton-passing "
              "threads, seeded interleaving at every file-system call on the "
              "shared kernel directory, crash/torn-write/ENOSPC injection, "
              "minimised replayable baton order",
    text="1-3 real PSyclone runs share one kernel-output directory; a seeded "
         "scheduler decides which run proceeds at every os.open/os.write/"
         "os.close/open/link/remove on that directory, and kills runs or "
         "tears writes inside the create..close window (separate sub-batch). "
         "History oracles: files are never written by two runs, names inside "
         "each file match the file, each PSy layer uses a file that run "
         "created with exactly that run's solo-reference content; scheme "
         "'single': identical kernels share one file and a differing run "
         "fails. Sampling of interleavings, not proof; for 2 runs x 1 kernel "
         "the thorough tier in effect covers the order space.",
    design_ref="DESIGN.md 4.1",
    note="Runs are threads in one interpreter (process boundary is a stub); "
         "expected text derived from a solo run by index substitution; only "
         "psy.gen runs under the scheduler."),
 "C09": dict(
    engine="E3-ompsim",
    technique="deterministic simulation: generated OpenMP code executed by "
              "an in-process OpenMP run-time simulator under seeded thread "
              "schedules, thread counts and schedule kinds, undefined "
              "(poisoned) private storage as the injected fault",
    text="Seeded programs go through the real OMP loop/parallel "
         "transformations (no force); every accepted, lowered program is "
         "executed by a simulated team of 1-8 threads under static/dynamic/"
         "guided schedules, five scheduler policies (incl. reverse-order and "
         "round-robin that maximise reordering) and three pre-emption "
         "granularities, with private storage poisoned; every shared array "
         "and non-privatised scalar must equal the serial run at region end. "
         "Violations are minimised (program, inputs, threads, schedule) and "
         "classified by root-cause features against four open known "
         "findings. Sampling, not proof.",
    design_ref="DESIGN.md 4.2",
    note="Trusts the PSyIR interpreter (validated against gfortran on 300 "
         "serial programs) and the OpenMP model of Appendix A; regions hold "
         "worksharing loops only."),
 "C08": dict(
    engine="E3-itertasks",
    technique="deterministic simulation: iterations of every loop the real "
              "analysis calls independent run as tasks in serial/reversed/"
              "seeded order with access tracing; Bernstein check over the "
              "recorded history; bounded-step liveness",
    text="For every loop at every nest level of seeded programs the real "
         "DependencyTools answer is taken; loops reported independent are "
         "executed with per-iteration access recording under three iteration "
         "orders and checked for two iterations touching one location with a "
         "write (scalar exemption as stated). The analysis must answer within "
         "20M interpreter line events. Sampling, not proof.",
    design_ref="DESIGN.md 4.3",
    note="Dynamic traces for n<=8 and seeded inputs only; the schedule "
         "dimension is thin when control flow is data independent (said so "
         "in DESIGN)."),
 "C26": dict(
    engine="E4-transhistory",
    technique="deterministic simulation: seeded transformation histories "
              "and per-program class sweeps; the refusal raised inside "
              "apply() is the crash point; state-before = state-after "
              "oracle; ddmin-minimised replay",
    text="All 57 concrete transformation classes are applied, with "
         "constructor variants, 23 general and class-specific option dicts "
         "(tile/chunk sizes, collapse, ...), to seeded nodes of "
         "generated modules, both in random histories (<=8 ops) and in "
         "sweeps (biased to transformations whose apply() has several "
         "steps) over every node of a class's preferred kind. After every "
         "TransformationError the written code, every symbol table (names, "
         "tags, argument lists) and the node-by-node tree digest must equal "
         "the snapshot taken before. Refusal sites reached are reported with "
         "early/late counts. Sampling, not proof.",
    design_ref="DESIGN.md 4.7",
    note="Only TransformationError counts as a refusal; domain-specific "
         "transformations meet generic PSyIR (plus PSy-layer sub-batch when "
         "present)."),
 "C10": dict(
    engine="E4-transhistory",
    technique="deterministic simulation (history dimension only): seeded "
              "single-model directive-transformation histories, structural "
              "scanner + gfortran -fopenmp/-fopenacc -fsyntax-only as "
              "validity oracle after every accepted step",
    text="Seeded histories of OpenMP-only or OpenACC-only region/loop/target/"
         "taskloop transformations (plus loop restructuring) on generated "
         "modules; after each accepted step the writer must refuse or emit "
         "text obeying the three structural rules of the property and "
         "accepted by gfortran (compiled, so that the close-nesting rules of "
         "the middle end apply) as far as directives are concerned. "
         "Sampling, not proof.",
    design_ref="DESIGN.md 4.8",
    note="gfortran 12 is the reference compiler; mixed OpenMP/OpenACC nests "
         "are not generated."),
 "C04": dict(
    engine="E4-transhistory",
    technique="deterministic simulation (history dimension only, no "
              "scheduler): seeded histories of symbol-creating "
              "transformations; symbol-identity check over the writer's "
              "flattened scopes (references and declaration links), "
              "declaration scan, gfortran -fsyntax-only and a read-back of "
              "the written text by the real front end after every accepted "
              "step",
    text="Seeded histories biased to the transformations that add or merge "
         "symbols on generated modules with a local kind parameter, "
         "size-dependent bounds and an inlinable helper with clashing local "
         "names (variants: kind constants also in an imported module with "
         "PARAMETER arrays and dependent constants; module variables named "
         "like generated temporaries; the same creator transformation in "
         "several loop bodies). After each accepted step every Reference and "
         "every kind/bound/initial-value link of a declaration must hold a "
         "symbol the written routine declares or sees (a dangling one is "
         "judged by name: captured or undeclared), no name is declared "
         "twice, the text compiles without declaration-family errors, and "
         "read back by the real front end every reference binds at the same "
         "level (module/routine) as in the tree. Sampling.",
    design_ref="DESIGN.md 4.9",
    note="Seeded history exploration, nothing more: this property has no "
         "schedule and its only fault is the refusal."),
 "C22": dict(
    engine="E5-lfric-dm",
    technique="deterministic simulation: generated distributed-memory PSy "
              "layer executed on 2-3 simulated MPI ranks (rank tasks under a "
              "seeded scheduler, halo exchanges as messages, async "
              "start/finish windows), arbitrary initial dirty/clean halo "
              "state with garbage in dirty halos as the injected fault, "
              "global single-copy reference",
    text="Seeded LFRic invokes (generated kernel metadata, built-ins, "
         "stencils, field vectors, both annexed-dof settings) go through "
         "the real pipeline and a seeded history of redundant-computation, "
         "colouring, OpenMP (single loops and multi-loop parallel regions), "
         "asynchronous-halo and move transformations; the generated text is "
         "interpreted on a 1-D chain mesh per rank. Oracles: every owned dof "
         "equals the global reference at the end; before every loop nest and "
         "at the end every copy the flags call clean equals its owner; no "
         "read of an in-flight halo / write to an in-flight send buffer; "
         "ranks never diverge on exchanges. Sampling, not proof.",
    design_ref="DESIGN.md 4.10",
    note="Trusts the stub's reading of the LFRic contract (developer guide: "
         "cell/dof ordering, annexed-dof cases); 1-D mesh; no operators, "
         "vectors, inter-grid, reductions."),
 "C23": dict(
    engine="E5-lfric-dm",
    technique="deterministic simulation (history dimension + simulated "
              "parallel-loop race detector): seeded colouring/OpenMP/OpenACC "
              "transformation histories, structural oracle on the generated "
              "text backed by two-iterations-increment-one-dof detection",
    
    text="Seeded histories of colouring, OpenMP and OpenACC loop/region "
         "transformations (random and as coherent colour->loop->region->enter-"
         "data pipelines, ACCLoopTrans option combinations; dm on and off) "
         "on generated invokes with INC/READINC/WRITE updates on continuous, "
         "any_space and discontinuous spaces, field vectors and LMA "
         "operator arguments. After the history, if generation succeeds, "
         "every parallel cell loop holding a shared-dof incrementing kernel "
         "must be a single-colour loop, no colours loop may sit in a "
         "parallel region, and in the simulated execution no two iterations "
         "of one parallel loop increment the same dof. Sampling.",
    design_ref="DESIGN.md 4.11",
    note="Loops inside an 'acc kernels' region count as parallel loops "
         "(PSyclone's own LFRic OpenACC script colours before applying "
         "kernels)."),
 "C15": dict(
    engine="E2-history",
    technique="deterministic simulation (two replicas that must stay "
              "isolated): seeded edit histories on a copy and its original, "
              "other side's written code as the observation",
    text="A seeded subtree of a generated module is copied with the real "
         "copy() - the tree itself being the product of a seeded pre-copy "
         "history (API-created mixed-case symbols, loops and calls, "
         "ChunkLoopTrans); equality, node disjointness and scope-by-scope "
         "symbol correspondence (each node of the copy holds the same-named "
         "symbol of the corresponding scope) are checked at copy time; then <=8 seeded edits (rename/add "
         "symbols, replace literals/expressions, detach/insert statements, "
         "loop bounds, initial values) hit either side and after each the "
         "other side's FortranWriter text must be unchanged. Leaks are "
         "classified by how the edited symbol is reachable. Sampling.",
    design_ref="DESIGN.md 4.6",
    note="Edits are restricted to the copied subtree and the symbols "
         "declared inside it."),
 "C13": dict(
    engine="E3-accsim",
    technique="deterministic simulation of a two-party system (host and "
              "device memories that only the generated data clauses "
              "connect): seeded transformation histories, device "
              "allocations injected as undefined (poisoned) memory, host "
              "arrays compared with a host-only run",
    text="Seeded routines (arrays of extent n, full/partial/conditional/"
         "shifted writes, host time loops and IFs around device loops) go "
         "through seeded histories of the real ACCKernelsTrans / "
         "ACCParallelTrans+ACCLoopTrans and ACCDataTrans (either order, one "
         "or two regions, optional ChunkLoopTrans inside afterwards); the "
         "region then runs on a separate device store whose allocations are "
         "undefined, with exactly the copyin/copyout/copy movements of the "
         "written directive lines. Host arrays must equal a host-only run; "
         "no undefined device value may be read or copied back; an array "
         "missing under default(present) is a run-time error. Sampling. "
         "Weakest fit of the claimed set: there is no schedule, the injected "
         "nondeterminism is the content of device allocations.",
    design_ref="DESIGN.md 4.12",
    note="Scalars host-coherent; iterations inside compute constructs run "
         "serially; ACCUpdateTrans and enter-data are outside the check; the "
         "write-first => copyout rule is an open known finding (KF-C13-1)."),
 "C25": dict(
    engine="E6-gocean",
    technique="deterministic simulation: the generated GOcean PSy layer is "
              "executed against a stub dl_esm_inf, OpenMP regions as a team "
              "of simulated threads under a seeded scheduler (static/"
              "dynamic/guided worksharing, barriers); seeded transformation "
              "histories and configuration files; the recorded history of "
              "kernel calls is checked against an independent region oracle",
    text="Seeded GOcean invokes (generated kernel metadata with every index "
         "offset x grid-point type x iteration space incl. user-defined "
         "spaces read from a generated configuration file; grid 3..7) go "
         "through the real pipeline and histories of <=6 of constant loop "
         "bounds, loop fusion (outer, inner), OpenMP parallel-loop / loop+"
         "region with several schedules, OpenACC loop/parallel/enter-data "
         "and extraction. The generated text is executed for the empty and "
         "the full history with 1-4 threads under seeded schedules; every "
         "call site must visit exactly its region (frozen copy of the "
         "built-in table / my own evaluation of the configuration text) once, "
         "and at each point kernels are called in invoke order. Sampling. The "
         "region look-up itself is a pure function; what the simulation "
         "decides is its invariance under histories, settings and schedules.",
    design_ref="DESIGN.md 4.13",
    note="Stub regions come from the frozen table for the grid's own offset; "
         "kernels record calls, nothing is computed; OpenACC runs as one "
         "gang; KF-C25-1 (constant loop bounds x go_offset_any) is open."),
}

NOT_APPLICABLE = {
 "C01": "pure function of (program, input): no schedule, fault or history to simulate; needs differential execution (other technique family)",
 "C02": "pure tree->text->tree function; no state, no fault",
 "C03": "pure text->text idempotence; nothing for a scheduler or fault injector to vary",
 "C05": "pure differential semantics of one accepted transformation on serial code (one schedule)",
 "C06": "as C05: serial semantics of a lowering, pure function of (program, input)",
 "C07": "as C05: inlining preserves serial behaviour, pure function of (program, input)",
 "C11": "static summary vs dynamic trace of a serial run; no interleaving or fault changes either side",
 "C12": "as C11: extraction read/write sets of a serial region",
 "C17": "pure mathematics over integer valuations (SMT / enumeration territory)",
 "C18": "pure string function",
 "C19": "pure linear-algebra identity over inputs",
 "C20": "pure per-DoF formula; where it is computed under DM/OpenMP is covered by C22/C09",
 "C21": "pure metadata -> argument-list function",
 "C24": "pure text -> text function",
 "C27": "pure function, and the stated quantifier (exhaustive up to five modules) is bounded enumeration, i.e. model checking",
 "C28": "trace property of a serial execution; nothing for a scheduler or fault injector to vary",
}
PLANNED = {}   # filled below for claimed-in-DESIGN properties not yet built


def main():
    props = [json.loads(l)["id"] for l in open(os.path.join(ROOT, "properties.jsonl"))]
    checks = []
    for pid in props:
        if pid in CLAIMED:
            c = CLAIMED[pid]
            checks.append({
                "property_id": pid,
                "quick_cmd": f"./vcheck {pid} --tier quick",
                "thorough_cmd": f"./vcheck {pid} --tier thorough",
                "evidence_file": f"/verif/evidence/{pid}.json",
                "replay_cmd_template": f"./vcheck {pid} --replay {{path}}",
                "engine": c["engine"],
                "level_claimed": {"category": "exploration", "text": c["text"],
                                  "design_ref": c["design_ref"]},
                "level_note": c["note"],
                "technique": c["technique"]})
    na = []
    for pid in props:
        if pid in CLAIMED:
            continue
        if pid in NOT_APPLICABLE:
            na.append({"property_id": pid, "reason": NOT_APPLICABLE[pid]})
        else:
            na.append({"property_id": pid, "reason":
                       PLANNED.get(pid, "deterministic simulation applies "
                                   "(see DESIGN.md section 4) but the check "
                                   "is not built yet; not claimed until it "
                                   "is working and sound")})
    manifest = {
        "version": 1,
        "setup_cmd": "/venv/bin/python tools/setup_check.py",
        "hooks": {
            "guard": "SVALAT_PSYCLONE_VERIF",
            "enable": "no hook exists in /repo: the guard only switches "
                      "/verif's own monkey-patch seams on (os/io/builtins.open "
                      "shims for C29, mutation observers for C26); /repo is an "
                      "editable install so checks always run the working tree",
            "baseline_off_cmd": "cd /repo && /venv/bin/python -m pytest -ra -q "
                                "-p no:cacheprovider --timeout=900 "
                                "--continue-on-collection-errors",
            "source_commits": [],
            "add_only": True},
        "engines": [
            {"name": "E1-fsrace", "path": "simkit/fsrace.py, checks/c29.py",
             "serves_properties": ["C29"],
             "kind_free_text": "baton-passing real threads + os/io/builtins shims; seeded scheduler and fault injector"},
            {"name": "E3-ompsim", "path": "simkit/fgen.py, simkit/interp.py, checks/c09.py, checks/c08.py",
             "serves_properties": ["C09", "C08"],
             "kind_free_text": "program generator + PSyIR interpreter + OpenMP run-time simulator with seeded scheduler"},
            {"name": "E3-accsim", "path": "simkit/accgen.py, simkit/accsim.py, simkit/interp.py, checks/c13.py",
             "serves_properties": ["C13"],
             "kind_free_text": "program + OpenACC history generator, PSyIR interpreter with a separate poisoned device store driven by the written data clauses"},
            {"name": "E6-gocean", "path": "simkit/gogen.py, simkit/gosim.py, checks/c25.py, checks/c25_table.py",
             "serves_properties": ["C25"],
             "kind_free_text": "GOcean workload + config generator, executor of the generated PSy layer with simulated OpenMP team and stub dl_esm_inf, frozen region table"},
            {"name": "E4-transhistory", "path": "simkit/richgen.py, simkit/histmachine.py, simkit/gfcheck.py, checks/c26.py, checks/c10.py, checks/c04.py",
             "serves_properties": ["C26", "C10", "C04"],
             "kind_free_text": "transformation-history machine over generated modules; refusals as crash points; gfortran as validity oracle"},
            {"name": "E5-lfric-dm", "path": "simkit/lfricgen.py, simkit/lfricsim.py, checks/c22.py, checks/c23.py",
             "serves_properties": ["C22", "C23"],
             "kind_free_text": "LFRic workload generator + multi-rank simulator interpreting the generated PSy layer; seeded rank scheduler; stub LFRic infrastructure"},
            {"name": "E2-history", "path": "checks/c14.py, checks/c16.py, checks/c15.py",
             "serves_properties": ["C14", "C16", "C15"],
             "kind_free_text": "seeded operation histories against a reference model; refusals as faults; ddmin"},
        ],
        "checks": checks,
        "not_applicable": na,
        "notes": "See DESIGN.md. Exit codes: 0 held, 1 VIOLATION, 2 HARNESS-ERROR. "
                 "known_findings.json lists fixed and open findings with committed witnesses under known/.",
    }
    with open(os.path.join(ROOT, "MANIFEST.json"), "w") as f:
        json.dump(manifest, f, indent=1)
    import jsonschema
    jsonschema.validate(manifest, json.load(open("/root/.vp/MANIFEST.schema.json")))
    evs = json.load(open("/root/.vp/EVIDENCE.schema.json"))
    for c in checks:
        p = c["evidence_file"]
        if os.path.exists(p):
            jsonschema.validate(json.load(open(p)), evs)
            print("evidence ok:", p)
        else:
            print("evidence missing:", p)
    print("MANIFEST ok:", len(checks), "claimed;", len(na), "not claimed")

if __name__ == "__main__":
    main()
