#!/venv/bin/python
"""MANIFEST.setup_cmd: verify that everything the checks import is present
offline; install hypothesis/jsonschema from the local wheelhouse if not."""
import importlib, subprocess, sys
missing = []
for mod in ("psyclone", "fparser", "sympy", "jsonschema"):
    try:
        importlib.import_module(mod)
    except Exception as err:
        missing.append((mod, err))
for mod, err in missing:
    if mod in ("jsonschema",):
        subprocess.call([sys.executable, "-m", "pip", "install", "--no-index",
                         "--find-links", "/opt/veriftools/wheels", mod])
    else:
        print("setup: cannot import", mod, err)
        sys.exit(1)
import os
sys.path.insert(0, os.path.dirname(os.path.dirname(os.path.abspath(__file__))))
from simkit import perf
print("setup: chunkcache built:", perf.build())
import psyclone
print("setup ok: psyclone from", psyclone.__file__)
