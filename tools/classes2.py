#!/venv/bin/python
"""Like classes.py but groups by (class, features) for E3 checks."""
import os, sys, collections
sys.path.insert(0, os.path.dirname(os.path.dirname(os.path.abspath(__file__))))
os.environ.setdefault("PSYCLONE_CONFIG", "/repo/config/psyclone.cfg")
from simkit import runner, perf; perf.install()
from simkit.core import canon
prop = sys.argv[1]; n = int(sys.argv[2]); seed = int(sys.argv[3]) if len(sys.argv) > 3 else 0
check = runner.load_check(prop)
plan = dict(check.plan("quick")); plan["runs"] = n
res, errs, st = runner.explore(check, seed, "quick", plan, 16)
known = runner.load_known(prop)
cls = collections.Counter(); ex = {}
tot = collections.Counter()
for r in res:
    for k, v in r.get("counters", {}).get("outcomes", {}).items(): tot[k] += v
    for v in r.get("violations", []):
        m = [e["id"] for e in known if e["status"] == "open" and check.signature_match(e["signature"], v)]
        key = (v["class"], canon(v["replay"].get("features")), tuple(m))
        cls[key] += 1
        ex.setdefault(key, (r["index"], v))
print(dict(tot))
for c, k in cls.most_common():
    print("=====", k, c)
    rep = ex[c][1]["replay"]
    if "--full" in sys.argv or not c[2]:
        print(rep["scenario"].get("generated", "")[rep["scenario"].get("generated", "").find("integer :: l")+12:])
        print("   observed", canon(rep.get("observed"))[:400], rep["scenario"].get("config"), "n=", rep["scenario"].get("inputs_n"))
print("errors", errs[:3])
