#!/venv/bin/python
"""Maintain known_findings.json (edited by hand-run tool only; never at check time).
usage: kf.py add <id> <property> <status> <commit|-> <witness-src> <class_prefix> <what...>"""
import json, os, shutil, sys
ROOT = os.path.dirname(os.path.dirname(os.path.abspath(__file__)))
path = os.path.join(ROOT, "known_findings.json")
data = json.load(open(path)) if os.path.exists(path) else {"findings": []}
cmd = sys.argv[1]
if cmd == "add":
    kid, prop, status, commit, src, prefix = sys.argv[2:8]
    what = " ".join(sys.argv[8:])
    dst = os.path.join("known", kid + ".json")
    shutil.copy(src, os.path.join(ROOT, dst))
    ent = {"id": kid, "property": prop, "status": status, "what": what,
           "witness": dst, "signature": {"class_prefix": prefix}}
    if status == "fixed":
        ent["commit"] = commit
        ent["record"] = f"fixed: property={prop} {commit} {what}"
    data["findings"] = [e for e in data["findings"] if e["id"] != kid] + [ent]
    data["findings"].sort(key=lambda e: e["id"])
if cmd == "addsig":
    kid, prop, status, commit, src, sig = sys.argv[2:8]
    what = " ".join(sys.argv[8:])
    dst = os.path.join("known", kid + ".json")
    shutil.copy(src, os.path.join(ROOT, dst))
    ent = {"id": kid, "property": prop, "status": status, "what": what,
           "witness": dst, "signature": json.loads(sig)}
    if status == "fixed":
        ent["commit"] = commit
        ent["record"] = f"fixed: property={prop} {commit} {what}"
    data["findings"] = [e for e in data["findings"] if e["id"] != kid] + [ent]
    data["findings"].sort(key=lambda e: e["id"])
json.dump(data, open(path, "w"), indent=1)
print(len(data["findings"]), "entries")
