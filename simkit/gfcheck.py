"""gfortran as a *validity oracle* only (nothing is ever executed): used by
C10 (directive structure; compiled to a discarded object so that the middle
end's nesting checks run) and C04 (declarations; -fsyntax-only)."""
import os
import re
import shutil
import subprocess
import tempfile


def compile_text(text, flags, full=False):
    """Returns list of (message, quoted source line) for every Error.
    full=True compiles to an object that is thrown away (-c -O0) instead of
    stopping after parsing: the OpenMP/OpenACC nesting rules ("may not be
    closely nested inside ...") are only enforced by the middle end."""
    root = "/dev/shm" if os.path.isdir("/dev/shm") else tempfile.gettempdir()
    tmp = tempfile.mkdtemp(prefix="gfc", dir=root)
    try:
        path = os.path.join(tmp, "m.f90")
        with open(path, "w") as fout:
            fout.write(text)
        mode = ["-c", "-O0", "-o", os.path.join(tmp, "m.o")] if full \
            else ["-fsyntax-only"]
        # line length is C18's business (PSyclone's separate line-length
        # limiter), not the writer's: never let it decide a verdict here
        mode = mode + ["-ffree-line-length-none"]
        proc = subprocess.run(["gfortran"] + mode + ["-J", tmp] +
                              flags + [path], capture_output=True,
                              text=True, timeout=120, cwd=tmp)
        return parse_errors(proc.stderr), proc.returncode
    finally:
        shutil.rmtree(tmp, ignore_errors=True)


_LOC = re.compile(r"^\S+\.f90:(\d+):(\d+):")


def parse_errors(stderr):
    out = []
    lines = stderr.split("\n")
    quoted = ""
    for i, ln in enumerate(lines):
        m = re.match(r"^\s*(\d+) \|(.*)$", ln)
        if m:
            quoted = m.group(2).strip()
        if ln.startswith("Error:") or ln.startswith("Fatal Error:"):
            out.append((ln.strip(), quoted))
    return out


DIRECTIVE_WORDS = re.compile(
    r"(?i)(\!\$omp|\!\$acc|openmp|openacc|\bOMP\b|\bACC\b|collapse|"
    r"work-?sharing|nested|region|\bDO loop\b.*(collapsed|iteration)|"
    r"not enough DO loops|clause)")


def is_directive_error(err):
    msg, quoted = err
    if "not supported yet" in msg or "unimplemented" in msg:
        # a limitation of this compiler (e.g. compute constructs inside an
        # OpenACC routine), not an invalid directive structure
        return False
    return bool(DIRECTIVE_WORDS.search(msg)) or \
        quoted.lower().lstrip().startswith(("!$omp", "!$acc"))


DECL_WORDS = re.compile(
    r"(?i)(has no IMPLICIT type|already has basic type|"
    r"used before it is typed|Duplicate|already declared|"
    r"is not a constant|cannot appear in (the )?expression|"
    r"must be constant|not been declared|Symbol .* at .* (has|is)|"
    r"conflicts with|ambiguous|PARAMETER .* (is|has)|initialization "
    r"expression|specification expression|Unclassifiable statement)")


def is_declaration_error(err):
    return bool(DECL_WORDS.search(err[0]))
