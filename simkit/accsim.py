"""OpenACC host/device simulator for C13 (an extension of simkit/interp.py).

Two stores: the host store the interpreter already has, and a device store
owned by this module.  Device allocations are filled with POISON (OpenACC
leaves them undefined - that is the nondeterminism the simulator owns);
only the data clauses and update directives *as written in the generated
text* move data:

  data copyin(x)   enter: allocate, host->device          exit: release
  data copyout(x)  enter: allocate (undefined)            exit: device->host
  data copy(x)     enter: allocate, host->device          exit: device->host
  (present-or semantics: an array already present is only reference counted)
  kernels / parallel:
       arrays that are present use the device copy;
       otherwise `default(present)` -> run-time error "not present",
       no default(present)          -> implicit copy (in at entry, out at
                                       exit), modelled as direct host access
       scalars are host-coherent (kernels: implicit copy; parallel:
       firstprivate - values assigned to scalars inside a parallel construct
       and used afterwards are outside the property, see ASSUMPTIONS)
  update host(x) / device(x) [if_present]: whole-array transfer when present
"""
import re

from simkit import interp
from simkit.interp import POISON, Arr, Env, RuntimeFault, Unsupported

_CLAUSE = re.compile(r"(copyin|copyout|copy|host|device|self)\(([^)]*)\)")


def parse_acc_line(line):
    low = line.strip().lower()
    out = {"text": line.strip(), "copyin": [], "copyout": [], "copy": [],
           "host": [], "device": [],
           "default_present": "default(present)" in low,
           "if_present": "if_present" in low}
    for m in _CLAUSE.finditer(low):
        key = "host" if m.group(1) == "self" else m.group(1)
        out[key] += [x.strip() for x in m.group(2).split(",") if x.strip()]
    return out


def acc_clauses(root, text):
    """Directive node -> clauses of the line the writer produced for it."""
    from psyclone.psyir.nodes import Directive
    nodes = root.walk(Directive)
    lines = [ln for ln in text.splitlines()
             if ln.strip().lower().startswith("!$acc") and
             not ln.strip().lower().startswith("!$acc end")]
    if len(nodes) != len(lines):
        raise Unsupported(f"{len(nodes)} directive nodes vs {len(lines)} "
                          f"directive lines")
    return {id(n): parse_acc_line(ln) for n, ln in zip(nodes, lines)}


class DevEnv(Env):
    """Variable resolution inside a compute construct."""

    def __init__(self, host_env, sim, default_present):
        super().__init__(host_env.shared, host_env.priv, host_env.tid)
        self.sim = sim
        self.default_present = default_present
        self.rec = host_env.rec

    def _arr(self, name):
        name = self.alias.get(name, name)
        ent = self.sim.present.get(name)
        if ent is not None:
            return ent, ent["arr"]
        arr = self.shared.get(name)
        if not isinstance(arr, Arr):
            raise Unsupported("not an array " + name)
        if self.default_present:
            raise RuntimeFault("not-present", name)
        self.sim.implicit.add(name)
        return None, arr

    def aread(self, name, idx):
        name = self.alias.get(name, name)
        ent, arr = self._arr(name)
        off = arr.flat(idx)
        val = arr.data[off]
        if ent is not None:
            self.sim.dev_reads += 1
            if val is POISON:
                self.sim.events += 1
                self.sim.undefined_reads.append(
                    (name, off, off in ent["written"], self.sim.events,
                     ent["region"]))
                # the first anomaly is the root cause; whatever it would
                # lead to later (garbage copied on, faults) is consequence,
                # so the execution stops here
                raise RuntimeFault("first-anomaly", name)
        return val

    def awrite(self, name, idx, val):
        name = self.alias.get(name, name)
        ent, arr = self._arr(name)
        off = arr.flat(idx)
        if ent is not None:
            ent["written"].add(off)
            self.sim.dev_writes += 1
        arr.data[off] = val


class AccSim:
    def __init__(self, clauses):
        self.clauses = clauses
        self.present = {}       # name -> {arr, rc, written, mode}
        self.implicit = set()
        self.events = 0         # order of the recorded anomalies
        self.undefined_reads = []
        self.copied_back = []   # (name, offsets that were never written
        #                          on the device and are POISON, clause)
        self.moves = {"copyin": 0, "copyout": 0, "copy": 0, "update_host": 0,
                      "update_device": 0, "already_present": 0,
                      "update_not_present": 0}
        self.dev_reads = 0
        self.dev_writes = 0
        self.regions = {"data": 0, "kernels": 0, "parallel": 0}
        self.in_compute = False
        self.ext = {
            "ACCDataDirective": self.data_region,
            "ACCKernelsDirective": self.compute,
            "ACCParallelDirective": self.compute,
            "ACCLoopDirective": self.loop_directive,
            "ACCUpdateDirective": self.update,
        }

    # -- data region ------------------------------------------------------
    def data_region(self, node, env, ctx):
        if self.in_compute:
            raise Unsupported("data region inside a compute construct")
        cl = self.clauses[id(node)]
        self.regions["data"] += 1
        entered = []
        for mode in ("copyin", "copyout", "copy"):
            for name in cl[mode]:
                host = env.shared.get(name)
                if not isinstance(host, Arr):
                    # scalars in data clauses: nothing to simulate
                    continue
                ent = self.present.get(name)
                if ent is not None:
                    ent["rc"] += 1
                    self.moves["already_present"] += 1
                    entered.append((name, None))
                    continue
                if mode == "copyout":
                    data = [POISON] * len(host.data)
                else:
                    data = list(host.data)
                self.moves[mode] += 1
                self.present[name] = {"arr": Arr(host.lb, host.ub, data),
                                      "rc": 1, "written": set(),
                                      "mode": mode, "region": id(node)}
                entered.append((name, mode))
        # "running the region on separate device memory": every statement
        # of the region, inside a compute construct or not, sees the device
        # copies of the arrays the clauses placed there
        dev = env if isinstance(env, DevEnv) else DevEnv(env, self, False)
        failed = True
        try:
            yield from interp.exec_block(node.dir_body.children, dev, ctx)
            failed = False
        finally:
            for name, mode in reversed(entered):
                ent = self.present[name]
                ent["rc"] -= 1
                if ent["rc"] > 0:
                    continue
                if mode in ("copyout", "copy"):
                    host = env.shared[name]
                    never = [off for off, v in enumerate(ent["arr"].data)
                             if v is POISON and off not in ent["written"]]
                    if never:
                        self.events += 1
                        self.copied_back.append((name, never[:4], mode,
                                                 self.events, id(node)))
                    host.data[:] = ent["arr"].data
                del self.present[name]
            if not failed and self.copied_back:
                raise RuntimeFault("first-anomaly", self.copied_back[0][0])

    # -- compute constructs -----------------------------------------------
    def compute(self, node, env, ctx):
        if self.in_compute:
            raise Unsupported("nested compute constructs")
        cl = self.clauses[id(node)]
        kind = "kernels" if type(node).__name__ == "ACCKernelsDirective" \
            else "parallel"
        self.regions[kind] += 1
        dev = DevEnv(env, self, cl["default_present"])
        dev.priv = env.priv
        self.in_compute = True
        try:
            yield from interp.exec_block(node.dir_body.children, dev, ctx)
        finally:
            self.in_compute = False

    def loop_directive(self, node, env, ctx):
        yield from interp.exec_block(node.dir_body.children, env, ctx)

    # -- update -----------------------------------------------------------
    def update(self, node, env, ctx):
        cl = self.clauses[id(node)]
        for direction in ("host", "device"):
            for name in cl[direction]:
                ent = self.present.get(name)
                host = env.shared.get(name)
                if not isinstance(host, Arr):
                    continue
                if ent is None:
                    if not cl["if_present"]:
                        raise RuntimeFault("update-not-present", name)
                    self.moves["update_not_present"] += 1
                    continue
                if direction == "host":
                    host.data[:] = ent["arr"].data
                    self.moves["update_host"] += 1
                else:
                    ent["arr"].data[:] = host.data
                    # the host supplied every element
                    ent["written"].update(range(len(host.data)))
                    self.moves["update_device"] += 1
        return
        yield   # pragma: no cover (makes this a generator)
