"""Executor for generated GOcean PSy layers (C25).

The *generated text* of the invoke routine is parsed line by line and
executed against a stub dl_esm_inf (fields with `internal`/`whole` regions,
`data` extents, `grid%subdomain%internal`).  OpenMP regions run as a team of
T simulated threads (Python generators) under a chooser the caller owns;
worksharing loops hand out iterations by the clause's schedule; code inside
a parallel region but outside a worksharing loop is executed by every
thread (OpenMP's rule - so an unshared kernel loop shows up as repeated
calls).  Every kernel call is recorded as (sequence number, thread, call
site, kernel, i, j).
"""
import re


class Discard(Exception):
    """Generated code outside the modelled subset: never a verdict."""


class Fault(Exception):
    pass


# --------------------------------------------------------------------------
# expressions
# --------------------------------------------------------------------------
_TOKEN = re.compile(r"\s*(\d+|[A-Za-z_][\w%]*|[-+*/(),])")


def tokenize(text):
    out, pos = [], 0
    text = text.strip()
    while pos < len(text):
        m = _TOKEN.match(text, pos)
        if not m:
            raise Discard("cannot tokenize: " + text)
        out.append(m.group(1))
        pos = m.end()
    return out


class Expr:
    def __init__(self, text, lookup):
        self.toks = tokenize(text)
        self.pos = 0
        self.lookup = lookup

    def peek(self):
        return self.toks[self.pos] if self.pos < len(self.toks) else None

    def take(self):
        tok = self.peek()
        self.pos += 1
        return tok

    def parse(self):
        val = self.sum()
        if self.peek() is not None:
            raise Discard("trailing tokens in expression")
        return val

    def sum(self):
        val = self.term()
        while self.peek() in ("+", "-"):
            op = self.take()
            rhs = self.term()
            val = val + rhs if op == "+" else val - rhs
        return val

    def term(self):
        val = self.factor()
        while self.peek() in ("*", "/"):
            op = self.take()
            rhs = self.factor()
            if op == "*":
                val = val * rhs
            else:
                if rhs == 0:
                    raise Fault("division by zero")
                q = abs(val) // abs(rhs)
                val = q if (val >= 0) == (rhs >= 0) else -q
        return val

    def factor(self):
        tok = self.take()
        if tok is None:
            raise Discard("unexpected end of expression")
        if tok == "-":
            return -self.factor()
        if tok == "+":
            return self.factor()
        if tok == "(":
            val = self.sum()
            if self.take() != ")":
                raise Discard("missing )")
            return val
        if tok.isdigit():
            return int(tok)
        if self.peek() == "(":
            self.take()
            args = []
            raw = []
            while True:
                start = self.pos
                # SIZE's first argument is a path, not a value
                if tok.lower() == "size" and not args:
                    raw.append(self.take())
                    args.append(None)
                else:
                    args.append(self.sum())
                    raw.append(None)
                nxt = self.take()
                if nxt == ")":
                    break
                if nxt != ",":
                    raise Discard("bad call syntax")
                del start
            return self.call(tok.lower(), args, raw)
        return self.lookup(tok.lower())

    def call(self, name, args, raw):
        if name == "size":
            shape = self.lookup(raw[0].lower() + "%@shape")
            if len(args) == 1:
                return shape[0] * shape[1]
            return shape[args[1] - 1]
        if name == "min":
            return min(args)
        if name == "max":
            return max(args)
        raise Discard("function " + name)


# --------------------------------------------------------------------------
# parsing the invoke routine
# --------------------------------------------------------------------------
_DECL = re.compile(r"(?i)^(use|implicit|type\s*\(|integer|real|logical|"
                   r"character|double|contains|class\s*\()\b")


def invoke_lines(code, name=r"invoke_\w+"):
    lines = []
    inside = False
    buf = ""
    for raw in code.split("\n"):
        ln = raw.strip()
        if not inside:
            if re.match(rf"(?i)^subroutine\s+{name}\b", ln):
                inside = True
            continue
        if re.match(rf"(?i)^end\s+subroutine\s+{name}\b", ln):
            break
        if not ln:
            continue
        if ln.startswith("!") and not ln.lower().startswith(("!$omp",
                                                              "!$acc")):
            continue
        # continuation lines
        if buf:
            if ln.lower().startswith(("!$omp&", "!$acc&")):
                ln = ln[6:].strip()
            elif ln.startswith("&"):
                ln = ln[1:].strip()
            ln = buf + " " + ln
            buf = ""
        if ln.endswith("&"):
            buf = ln[:-1].strip()
            continue
        if _DECL.match(ln) and ("::" in ln or "=" not in ln):
            continue
        ln = re.sub(r"\s*%\s*", "%", ln)
        lines.append(ln)
    if not inside:
        raise Discard("invoke routine not found")
    return lines


def parse_block(lines, pos, enders):
    """Returns (statements, position after the ender, ender text)."""
    out = []
    pending = None
    while pos < len(lines):
        ln = lines[pos]
        low = ln.lower()
        if any(low.startswith(e) for e in enders):
            return out, pos + 1, low
        if low.startswith("!$omp"):
            body = low[5:].strip()
            if body.startswith("parallel do") or body.startswith("do"):
                pending = body
                pos += 1
                continue
            if body.startswith("end parallel do") or \
                    body.startswith("end do"):
                pos += 1
                continue
            if body.startswith("parallel"):
                inner, pos, _ = parse_block(lines, pos + 1,
                                            ["!$omp end parallel"])
                out.append(("parallel", body, inner))
                continue
            if body.startswith(("barrier", "taskwait")):
                out.append(("barrier",))
                pos += 1
                continue
            raise Discard("omp directive: " + body[:30])
        if low.startswith("!$acc"):
            # OpenACC constructs are executed sequentially (one gang)
            pos += 1
            continue
        m = re.match(r"(?i)^do\s+(\w+)\s*=\s*(.+)$", ln)
        if m:
            parts = split_top(m.group(2))
            if len(parts) not in (2, 3):
                raise Discard("do header: " + ln)
            body, pos, _ = parse_block(lines, pos + 1, ["end do", "enddo"])
            out.append(("do", m.group(1).lower(), parts[0], parts[1],
                        parts[2] if len(parts) == 3 else "1", body,
                        pending))
            pending = None
            continue
        m = re.match(r"(?i)^call\s+([\w%]+)\s*(\((.*)\))?$", ln)
        if m:
            name = m.group(1).lower()
            if "%" in name:
                # PSyData (extraction/profiling) library calls
                out.append(("libcall", name))
            else:
                out.append(("call", name, split_top(m.group(3) or "")))
            pos += 1
            continue
        m = re.match(r"^([A-Za-z_]\w*)\s*=\s*(.+)$", ln)
        if m:
            out.append(("assign", m.group(1).lower(), m.group(2)))
            pos += 1
            continue
        if re.match(r"(?i)^\w+%data_on_device\s*=\s*\.true\.$", ln) or \
                re.match(r"(?i)^\w+%\w+\s*=>\s*\w+$", ln):
            pos += 1        # OpenACC bookkeeping of the stub library
            continue
        if low.startswith(("if (", "if(", "end if", "endif", "else")):
            raise Discard("conditional in PSy layer")
        raise Discard("statement: " + ln[:60])
    if enders:
        raise Discard("unterminated block")
    return out, pos, None


def split_top(text):
    parts, depth, cur = [], 0, ""
    for ch in text:
        if ch == "(":
            depth += 1
        elif ch == ")":
            depth -= 1
        if ch == "," and depth == 0:
            parts.append(cur.strip())
            cur = ""
        else:
            cur += ch
    if cur.strip():
        parts.append(cur.strip())
    return parts


# --------------------------------------------------------------------------
# execution
# --------------------------------------------------------------------------
class Stub:
    """dl_esm_inf as far as the PSy layer looks at it."""

    def __init__(self, fields, istop, jstop):
        # fields: name -> {"internal": (ys, ye, xs, xe), "whole": (...)}
        self.fields = fields
        self.istop, self.jstop = istop, jstop

    def lookup(self, env, path):
        if "%" not in path:
            if path in env:
                return env[path]
            raise Discard("unknown name " + path)
        parts = path.split("%")
        fld = self.fields.get(parts[0])
        if fld is None:
            raise Discard("unknown field " + parts[0])
        rest = parts[1:]
        if rest == ["data", "@shape"]:
            return (self.istop + 1, self.jstop + 1)
        if rest[0] in ("internal", "whole") and len(rest) == 2:
            ys, ye, xs, xe = fld[rest[0]]
            return {"ystart": ys, "ystop": ye, "xstart": xs,
                    "xstop": xe}[rest[1]]
        if rest[:3] == ["grid", "subdomain", "internal"] and len(rest) == 4:
            return {"xstart": 2, "ystart": 2, "xstop": self.istop,
                    "ystop": self.jstop}[rest[3]]
        if rest == ["grid", "nx"]:
            return self.istop + 1
        if rest == ["grid", "ny"]:
            return self.jstop + 1
        raise Discard("field component " + path)


class Run:
    def __init__(self, stmts, stub, kernels, nthreads, chooser,
                 default_sched=("static", None), step_cap=200000):
        self.stmts = stmts
        self.stub = stub
        self.kernels = kernels          # names of kernel subroutines
        self.T = nthreads
        self.chooser = chooser
        self.default_sched = default_sched
        self.events = []
        self.sites = {}                 # id(stmt) -> call-site index
        self.trace = []
        self.steps = 0
        self.step_cap = step_cap
        self.ws_state = {}
        self.arrived = {}
        self.switches = 0
        self.regions = 0
        self.ws_loops = 0
        self._number_sites(stmts)

    def _number_sites(self, stmts):
        for st in stmts:
            if st[0] == "call" and st[1] in self.kernels:
                self.sites[id(st)] = len(self.sites)
            elif st[0] == "do":
                self._number_sites(st[5])
            elif st[0] == "parallel":
                self._number_sites(st[2])

    def ev(self, text, env):
        return Expr(text, lambda p: self.stub.lookup(env, p)).parse()

    def tick(self):
        self.steps += 1
        if self.steps > self.step_cap:
            raise Fault("step-cap")

    # sequential part ------------------------------------------------------
    def execute(self):
        env = {}
        th = {"tid": 0, "ws": 0, "bar": 0, "in_par": False}
        for _ in self.block(self.stmts, env, th):
            pass
        return self.events

    def block(self, stmts, env, th):
        for st in stmts:
            self.tick()
            kind = st[0]
            if kind == "assign":
                env[st[1]] = self.ev(st[2], env)
            elif kind == "libcall" or kind == "barrier" and \
                    not th["in_par"]:
                continue
            elif kind == "barrier":
                yield from self.barrier(th)
            elif kind == "call":
                if st[1] not in self.kernels:
                    continue
                if len(st[2]) < 2:
                    raise Discard("kernel call without i, j")
                i = self.ev(st[2][0], env)
                j = self.ev(st[2][1], env)
                if th["in_par"]:
                    yield ("call",)
                self.events.append((len(self.events), th["tid"],
                                    self.sites[id(st)], st[1], i, j))
            elif kind == "do":
                yield from self.loop(st, env, th)
            elif kind == "parallel":
                if th["in_par"]:
                    raise Discard("nested parallel region")
                self.parallel(st[2], env, None)
        return

    def loop(self, st, env, th):
        _, var, lo, hi, step, body, directive = st
        lo_v, hi_v, st_v = self.ev(lo, env), self.ev(hi, env), \
            self.ev(step, env)
        if st_v == 0:
            raise Fault("zero step")
        count = max(0, (hi_v - lo_v + st_v) // st_v)
        values = [lo_v + k * st_v for k in range(count)]
        if directive is None:
            for val in values:
                env[var] = val
                yield from self.block(body, env, th)
            return
        if directive.startswith("parallel do"):
            if th["in_par"]:
                raise Discard("parallel do inside a parallel region")
            self.parallel([("do", var, lo, hi, step, body,
                            "do " + directive[len("parallel do"):])], env,
                          None)
            return
        # orphaned or enclosed "omp do"
        if not th["in_par"]:
            # an orphaned worksharing loop binds to a team of one
            for val in values:
                env[var] = val
                yield from self.block(body, env, th)
            return
        yield from self.workshare(values, var, body, env, th, directive)

    # parallel part --------------------------------------------------------
    def parallel(self, body, outer_env, _):
        self.regions += 1
        gens, ths = [], []
        for tid in range(self.T):
            th = {"tid": tid, "ws": 0, "bar": 0, "in_par": True}
            env = dict(outer_env)       # everything the PSy layer assigns
            #                             inside a region is a loop variable
            gens.append(self.block(body, env, th))
            ths.append(th)
        last = [("start",)] * self.T
        done = [False] * self.T
        prev = None
        while not all(done):
            runnable = [t for t in range(self.T) if not done[t] and not (
                last[t][0] == "blocked" and
                self.arrived.get(last[t][1], 0) < self.T)]
            if not runnable:
                raise Fault("deadlock in parallel region")
            tid = self.chooser(runnable)
            self.trace.append(tid)
            if prev is not None and prev != tid:
                self.switches += 1
            prev = tid
            self.tick()
            try:
                last[tid] = next(gens[tid])
            except StopIteration:
                done[tid] = True
        # loop variables are private: the sequential part never reads them

    def workshare(self, values, var, body, env, th, directive):
        self.ws_loops += 1
        wsid = (self.regions, th["ws"])
        th["ws"] += 1
        m = re.search(r"schedule\(\s*(\w+)\s*(?:,\s*(\d+))?\s*\)", directive)
        kind, chunk = (m.group(1), int(m.group(2)) if m.group(2) else None) \
            if m else self.default_sched
        if kind in ("auto", "runtime"):
            kind, chunk = self.default_sched
        n = len(values)
        state = self.ws_state.setdefault(wsid, {"next": 0})

        def run(lo, hi):
            for k in range(lo, hi):
                env[var] = values[k]
                yield from self.block(body, env, th)
        if kind == "static":
            if chunk is None:
                size = -(-n // self.T) if n else 0
                lo = th["tid"] * size
                yield from run(min(lo, n), min(lo + size, n))
            else:
                lo = th["tid"] * chunk
                while lo < n:
                    yield from run(lo, min(lo + chunk, n))
                    lo += self.T * chunk
        else:
            while True:
                yield ("grab",)
                lo = state["next"]
                if lo >= n:
                    break
                size = chunk or 1
                if kind == "guided":
                    size = max(chunk or 1, -(-(n - lo) // self.T))
                state["next"] = min(n, lo + size)
                yield from run(lo, min(lo + size, n))
        if "nowait" not in directive:
            yield from self.barrier(th)

    def barrier(self, th):
        bid = (self.regions, "b", th["bar"])
        th["bar"] += 1
        self.arrived[bid] = self.arrived.get(bid, 0) + 1
        while self.arrived[bid] < self.T:
            yield ("blocked", bid)
