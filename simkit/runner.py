"""The runner behind ./vcheck: known-finding replay, seeded exploration over
a fork-per-slice process pool, classification, minimised replay files,
evidence.  See DESIGN.md 3.5-3.9.

Exit codes: 0 held (possibly KNOWN-FINDING lines), 1 VIOLATION, 2 HARNESS-ERROR.
"""
import argparse
import faulthandler
import importlib
import json
import multiprocessing
import multiprocessing.connection
import os
import signal
import subprocess
import sys
import time
import traceback

from simkit.core import Counters, digest, run_seed, canon

ROOT = os.path.dirname(os.path.dirname(os.path.abspath(__file__)))
KNOWN_FILE = os.path.join(ROOT, "known_findings.json")


def _reexec_if_needed():
    """PYTHONHASHSEED must be fixed before the interpreter starts."""
    want = os.environ.get("VERIF_HASHSEED", "0")
    # VERIF_REPO: run against another checkout of the repository (used by
    # the mutant/seeded-change tooling with scratch worktrees); default is
    # /repo's working tree through the editable install.
    repo = os.environ.get("VERIF_REPO", "/repo")
    src = os.path.join(repo, "src")
    pp = os.environ.get("PYTHONPATH", "")
    need_path = repo != "/repo" and src not in pp.split(os.pathsep)
    if os.environ.get("PYTHONHASHSEED") != want or need_path:
        env = dict(os.environ)
        env["PYTHONHASHSEED"] = want
        if need_path:
            env["PYTHONPATH"] = src + (os.pathsep + pp if pp else "")
            env["PSYCLONE_CONFIG"] = os.path.join(repo, "config",
                                                  "psyclone.cfg")
        env.setdefault("PSYCLONE_CONFIG",
                       os.path.join(repo, "config", "psyclone.cfg"))
        os.execve(sys.executable, [sys.executable] + sys.argv, env)
    os.environ.setdefault("PSYCLONE_CONFIG",
                          os.path.join(repo, "config", "psyclone.cfg"))
    # Switches /verif's own monkey-patch seams on; no repo code reads it.
    os.environ.setdefault("SVALAT_PSYCLONE_VERIF", "1")


def load_check(prop):
    return importlib.import_module("checks." + prop.lower())


def load_known(prop):
    if not os.path.exists(KNOWN_FILE):
        return []
    with open(KNOWN_FILE) as fin:
        data = json.load(fin)
    return [e for e in data.get("findings", []) if e["property"] == prop]


_KNOWN_CACHE = {}


def matches_open_known(check, vio):
    """True if an (unminimised) violation already matches an open known
    finding: engines use it to skip the expensive minimisation of instances
    that will only be counted."""
    prop = check.PROPERTY
    if prop not in _KNOWN_CACHE:
        _KNOWN_CACHE[prop] = [e for e in load_known(prop)
                              if e["status"] == "open"]
    for ent in _KNOWN_CACHE[prop]:
        try:
            if check.signature_match(ent["signature"], vio):
                return True
        except Exception:
            continue
    return False


# --------------------------------------------------------------------------
# fork-per-slice pool
# --------------------------------------------------------------------------
def _child(check, conn, seed, indices, tier, timeout_s):
    try:
        faulthandler.enable()
        faulthandler.dump_traceback_later(timeout_s, exit=True)
        out = []
        for idx in indices:
            rs = run_seed(seed, check.PROPERTY, idx)
            t0 = time.perf_counter()
            try:
                res = check.run_one(rs, idx, tier)
            except Exception:  # harness failure, never a violation
                res = {"harness_error": traceback.format_exc()}
            res["index"] = idx
            res["seed"] = rs
            res["cpu_s"] = time.perf_counter() - t0
            out.append(res)
        conn.send(out)
        conn.close()
    except BaseException:
        try:
            conn.send([{"harness_error": traceback.format_exc(),
                        "index": indices[0]}])
        except Exception:
            pass
    finally:
        os._exit(0)


def explore(check, seed, tier, plan, workers):
    """Run plan['runs'] seeded runs.  Returns (results in index order,
    harness_errors, stats)."""
    nruns = plan["runs"]
    size = plan.get("slice", 10)
    slices = [list(range(s, min(s + size, nruns)))
              for s in range(0, nruns, size)]
    budget = plan.get("budget_s", 600.0)
    slice_timeout = plan.get("slice_timeout_s", 300.0)
    ctx = multiprocessing.get_context("fork")
    t_start = time.monotonic()
    pending = list(reversed(slices))
    live = {}   # conn -> (proc, slice, start)
    done = {}   # first index -> list of results
    errors = []
    skipped = 0
    while pending or live:
        while pending and len(live) < workers:
            if time.monotonic() - t_start > budget:
                skipped += sum(len(s) for s in pending)
                pending = []
                break
            sl = pending.pop()
            rd, wr = ctx.Pipe(duplex=False)
            proc = ctx.Process(target=_child, args=(
                check, wr, seed, sl, tier, slice_timeout))
            proc.start()
            wr.close()
            live[rd] = (proc, sl, time.monotonic())
        if not live:
            break
        ready = multiprocessing.connection.wait(list(live), timeout=1.0)
        for rd in ready:
            proc, sl, _ = live.pop(rd)
            try:
                done[sl[0]] = rd.recv()
            except EOFError:
                errors.append(f"worker for runs {sl[0]}..{sl[-1]} died "
                              f"without a result (exit {proc.exitcode})")
            rd.close()
            proc.join()
        now = time.monotonic()
        for rd, (proc, sl, st) in list(live.items()):
            if now - st > slice_timeout + 30:
                os.kill(proc.pid, signal.SIGKILL)
                proc.join()
                live.pop(rd)
                rd.close()
                errors.append(f"worker for runs {sl[0]}..{sl[-1]} exceeded "
                              f"{slice_timeout}s and was killed")
    results = []
    for first in sorted(done):
        results.extend(done[first])
    for res in results:
        if "harness_error" in res:
            errors.append(f"run {res.get('index')}: {res['harness_error']}")
    stats = {"skipped_for_budget": skipped,
             "wall_s": time.monotonic() - t_start}
    return results, errors, stats


# --------------------------------------------------------------------------
# replay handling
# --------------------------------------------------------------------------
def write_replay(check, replay):
    d = os.path.join(ROOT, "replays", check.PROPERTY)
    os.makedirs(d, exist_ok=True)
    path = os.path.join(d, digest(replay) + ".json")
    with open(path, "w") as fout:
        json.dump(replay, fout, indent=1, sort_keys=True, default=repr)
    return path


def replay_fresh(prop, path, timeout=600):
    """Replay in a fresh interpreter.  Returns (reproduced, class, text)."""
    cmd = [sys.executable, os.path.join(ROOT, "vcheck"), prop,
           "--replay", path]
    try:
        proc = subprocess.run(cmd, capture_output=True, text=True,
                              timeout=timeout, cwd=ROOT)
    except subprocess.TimeoutExpired:
        return None, None, "replay timed out"
    cls = None
    for line in proc.stdout.splitlines():
        if line.startswith("REPRODUCED "):
            cls = line.split("class=", 1)[1].strip()
    if proc.returncode == 1 and cls is not None:
        return True, cls, proc.stdout
    if proc.returncode == 0:
        return False, None, proc.stdout
    return None, None, proc.stdout + proc.stderr


def do_replay(check, path):
    with open(path) as fin:
        rep = json.load(fin)
    vio = check.replay(rep)
    if vio is None:
        print("NOT-REPRODUCED")
        return 0
    print("REPRODUCED class=" + vio["class"])
    print("observed: " + canon(vio.get("observed"))[:2000])
    return 1


# --------------------------------------------------------------------------
def main(argv=None):
    _reexec_if_needed()
    ap = argparse.ArgumentParser(prog="vcheck")
    ap.add_argument("property")
    ap.add_argument("--tier", default=os.environ.get("VERIF_TIER", "quick"),
                    choices=["quick", "thorough"])
    ap.add_argument("--replay")
    ap.add_argument("--runs", type=int)
    ap.add_argument("--workers", type=int,
                    default=int(os.environ.get("VERIF_WORKERS", "0")) or
                    min(16, os.cpu_count() or 4))
    ap.add_argument("--seed", type=int,
                    default=int(os.environ.get("VERIF_SEED", "0") or 0))
    ap.add_argument("--one", type=int, help="run one index in-process "
                    "and print its result (debugging / determinism tests)")
    ap.add_argument("--digests", action="store_true", help="print one "
                    "line per run: index and event-log digest")
    ap.add_argument("--no-evidence", action="store_true")
    ap.add_argument("--budget", type=float, help="override the tier's "
                    "wall-clock cap in seconds (a cap only lowers the "
                    "number of evaluations, never changes a run)")
    args = ap.parse_args(argv)
    prop = args.property.upper()
    from simkit import perf
    perf.install()          # speed only; see simkit/chunkcache.c
    check = load_check(prop)

    if hasattr(check, "prepare"):
        import atexit
        check.prepare()
        atexit.register(check.cleanup)
    if args.replay:
        return do_replay(check, args.replay)
    if args.one is not None:
        res = check.run_one(run_seed(args.seed, prop, args.one), args.one,
                            args.tier)
        print(canon(res))
        return 0

    t0 = time.monotonic()
    plan = dict(check.plan(args.tier))
    if args.runs:
        plan["runs"] = args.runs
    if args.budget:
        plan["budget_s"] = args.budget
    import psyclone
    print(f"vcheck {prop} tier={args.tier} VERIF_SEED={args.seed} "
          f"runs={plan['runs']} workers={args.workers} psyclone="
          f"{os.path.dirname(psyclone.__file__)}", flush=True)

    exit_code = 0
    violations = []     # (class, replay path)
    known_lines = []
    known = load_known(prop)

    # (1) committed witnesses: open ones must still fail (else say so),
    #     fixed ones must pass.
    known_status = {}
    for ent in known:
        wpath = os.path.join(ROOT, ent["witness"])
        with open(wpath) as fin:
            rep = json.load(fin)
        vio = check.replay(rep)
        if ent["status"] == "open":
            if vio is not None:
                line = (f"KNOWN-FINDING: property={prop} {ent['id']} "
                        f"{ent['what']}")
                print(line, flush=True)
                known_lines.append(line)
                known_status[ent["id"]] = "still-fails"
            else:
                print(f"note: witness of {ent['id']} no longer fails "
                      f"(finding apparently repaired)", flush=True)
                known_status[ent["id"]] = "passes-now"
        else:  # fixed: suppresses nothing
            if vio is not None:
                print(f"VIOLATION property={prop} replay={wpath}",
                      flush=True)
                violations.append((vio["class"], wpath))
                exit_code = 1
                known_status[ent["id"]] = "REGRESSED"
            else:
                known_status[ent["id"]] = "passes"

    # (2) exploration
    results, errors, stats = explore(check, args.seed, args.tier, plan,
                                     args.workers)
    counters = Counters()
    nontrivial = set()
    sub_cases = set()
    samples = []
    steps = 0
    known_instances = {}
    unknown = []
    for res in results:
        if "harness_error" in res:
            continue
        Counters.merge(counters, res.get("counters", {}))
        steps += res.get("steps", 0)
        if res.get("digest"):
            nontrivial.add(res["digest"])
        for dg in res.get("digests", []):
            sub_cases.add(dg)
        if res.get("sample") is not None and len(samples) < 4:
            samples.append(res["sample"])
        for vio in res.get("violations", []):
            matched = None
            for ent in known:
                if ent["status"] == "open" and check.signature_match(
                        ent["signature"], vio):
                    matched = ent["id"]
                    break
            if matched:
                known_instances[matched] = known_instances.get(matched, 0) + 1
            else:
                unknown.append((res["index"], vio))
    if args.digests:
        for res in results:
            print("DIGEST", res.get("index"), res.get("log_digest"))

    # report unknown violations: first few distinct classes, minimised by
    # the engine already; each is replayed in a fresh interpreter first.
    reported_classes = set()
    for idx, vio in unknown:
        if vio["class"] in reported_classes or len(reported_classes) >= 3:
            continue
        reported_classes.add(vio["class"])
        path = write_replay(check, vio["replay"])
        ok, cls, text = replay_fresh(prop, path)
        if ok and cls == vio["class"]:
            print(f"VIOLATION property={prop} replay={path}", flush=True)
            print(f"  class={vio['class']} run_index={idx} "
                  f"VERIF_SEED={args.seed}")
            violations.append((vio["class"], path))
            exit_code = 1
        else:
            errors.append(f"nondeterministic replay for run {idx} "
                          f"class={vio['class']} (fresh replay said "
                          f"{ok}/{cls}): {path}\n{text[-1500:]}")

    evaluations = sum(1 for r in results if "harness_error" not in r)
    wall = time.monotonic() - t0
    if errors:
        for err in errors[:5]:
            print("HARNESS-ERROR " + err.strip().replace("\n", "\n    "),
                  flush=True)
        if exit_code == 0:
            exit_code = 2
    if evaluations == 0 and exit_code == 0:
        print("HARNESS-ERROR no run completed")
        exit_code = 2

    # (3) evidence
    if not args.no_evidence:
        cov = {
            "evaluations": evaluations,
            "distinct_nontrivial": len(nontrivial),
            "rule": check.RULE,
            "samples": samples,
            "distinct_nontrivial_sub_cases": len(sub_cases),
            "runs_planned": plan["runs"],
            "runs_skipped_for_wall_budget": stats["skipped_for_budget"],
            "seeds": {"batch_seed": args.seed,
                      "first_run_seed": results[0]["seed"] if results else None,
                      "last_run_seed": results[-1]["seed"] if results else None},
            "runs_per_hour": int(evaluations / max(wall, 1e-6) * 3600),
            "sim_steps": steps,
            "simulated_time": "none: no clock or timer exists in the anchored "
                              "code; sim_steps counts scheduler/rule steps",
            "workers": args.workers,
            "known_findings_replayed": known_status,
            "known_instances": known_instances,
            "unknown_violations": len(unknown),
            "harness_errors": len(errors),
            "real_vs_stub": check.REAL_VS_STUB,
        }
        for key, val in counters.items():
            cov[key] = val
        zero_probes = [k for k, v in cov.get("probes", {}).items() if v == 0]
        if zero_probes:
            print("warning: probes never hit: " + ", ".join(zero_probes))
        ev = {"property_id": prop, "tier": args.tier, "seed": args.seed,
              "level": check.LEVEL, "coverage": cov,
              "assumptions": check.ASSUMPTIONS, "wall_s": round(wall, 2),
              "violations": len(violations)}
        os.makedirs(os.path.join(ROOT, "evidence"), exist_ok=True)
        with open(os.path.join(ROOT, "evidence", prop + ".json"), "w") as f:
            json.dump(ev, f, indent=1, sort_keys=True, default=repr)
    print(f"{prop}: evaluations={evaluations} distinct_nontrivial="
          f"{len(nontrivial)} known_instances={known_instances} "
          f"violations={len(violations)} wall={wall:.1f}s exit={exit_code}",
          flush=True)
    return exit_code
