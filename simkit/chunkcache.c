/* Performance aid only (see simkit/perf.py): CPython 3.12 allocates the
 * 16 KiB chunks of its per-thread frame data stack with mmap and returns
 * them with munmap every time the recursion depth crosses a chunk
 * boundary.  PSyclone's recursive-descent front end does that thousands of
 * times per run, and in this 16-vCPU VM a munmap of a multi-threaded
 * process costs ~60 us (TLB shootdown).  This wraps the interpreter's arena
 * allocator with a small free-list for exactly that chunk size.  Behaviour
 * of the interpreter is unchanged; all calls happen with the GIL held. */
#include <stddef.h>
typedef struct {
    void *ctx;
    void *(*alloc)(void *ctx, size_t size);
    void (*free)(void *ctx, void *ptr, size_t size);
} arena_allocator;

#define CHUNK 16384
#define NCACHE 256
static arena_allocator orig;
static void *cache[NCACHE];
static int ncache = 0;

static void *cc_alloc(void *ctx, size_t size) {
    if (size == CHUNK && ncache > 0) return cache[--ncache];
    return orig.alloc(orig.ctx, size);
}
static void cc_free(void *ctx, void *ptr, size_t size) {
    if (size == CHUNK && ncache < NCACHE) { cache[ncache++] = ptr; return; }
    orig.free(orig.ctx, ptr, size);
}
static arena_allocator mine = {0, cc_alloc, cc_free};

arena_allocator *chunkcache_wrap(arena_allocator *current) {
    orig = *current;
    return &mine;
}
