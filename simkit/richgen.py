"""Seeded generator of "rich" Fortran modules for the E4 transformation-
history machine (C26, C10, C04).  Programs are nested lists of text lines so
that ddmin can delete statements / unwrap blocks without knowing Fortran.

A program: {"stmts": [...], "helper": [...], "uses_helper": bool}
stmt: {"k": "line", "t": text} | {"k": "do", "head": text, "body": [...]}
      | {"k": "if", "head": text, "then": [...], "else": [...]}
"""
from simkit.core import pick, weighted

DECLS = """
  integer, parameter :: wp = kind(1.0d0)
  integer, intent(in) :: n
  real(kind=wp), dimension(n), intent(inout) :: a, b
  real(kind=wp), dimension(n,n), intent(inout) :: p, q
  real(kind=wp), dimension(n) :: c
  real(kind=wp), dimension(4,4) :: m1, m2, m3
  real(kind=wp), dimension(4) :: v1, v2
  integer, dimension(n) :: idx
  real(kind=wp) :: x, y, t
  integer :: i, j, k
"""

SCALAR_EXPR = ["x", "y", "t", "1.0_wp", "2.0_wp", "a(i)", "b(i)", "x + y",
               "abs(x)", "min(x, y)", "max(x, t, 1.0_wp)", "sign(x, y)",
               "sum(a)", "sum(a(1:n))", "maxval(b)", "minval(a(2:n))",
               "product(v1)", "dot_product(v1, v2)", "abs(x) + min(y, t)",
               "sum(p(:,1))", "x * y - t", "real(n, wp)", "a(1) + b(n)",
               "sum(a) + maxval(b)", "mod(n, 3) * 1.0_wp",
               # reductions over expressions the loop conversion may refuse
               "sum(matmul(m1, v1))", "maxval(a(idx(1:n)))",
               "minval(transpose(m1))", "sum(a(:) * b(1:n))",
               "sum(a, mask=b > 0.0_wp)", "maxval(merge(a, b, a > b))",
               "product(a(2:n) * b(1:n-1))", "sum(p(:,:) * q)"]
LOOP_STMTS = ["a(i) = b(i) + {s}", "b(i) = a(i) * 2.0_wp", "c(i) = a(i) + b(i)",
              "t = a(i)", "a(i) = t + 1.0_wp", "x = x + a(i)",
              "a(i) = abs(b(i))", "b(i) = max(a(i), c(i))",
              "a(idx(i)) = b(i)", "b(i) = sign(a(i), c(i))",
              "c(i) = min(a(i), b(i), x)", "k = i + 1", "a(i) = b(k)"]
LOOP2_STMTS = ["p(i,j) = q(i,j) + {s}", "q(i,j) = p(j,i)", "p(i,j) = a(i) * b(j)",
               "t = p(i,j)", "q(i,j) = t * 2.0_wp", "p(i,j) = abs(q(i,j))",
               "a(i) = a(i) + p(i,j)"]
ARRAY_STMTS = ["a(:) = 0.0_wp", "a = b", "a(1:n) = b(1:n) + 1.0_wp",
               "c(2:n) = a(1:n-1)", "p(:,:) = q(:,:) * 2.0_wp",
               "a(:) = p(:,1)", "p(1,:) = b(:)", "b = a + c",
               "m3 = matmul(m1, m2)", "v2 = matmul(m1, v1)",
               "a(:) = abs(b(:))", "c = max(a, b)", "a(1:n:2) = 1.0_wp",
               "q(2:n,1) = a(1:n-1)", "x = sum(a(:) * b(:))",
               "a = a * x", "v1(:) = m1(:,2)", "m3(:,:) = 0.0_wp"]
MISC_STMTS = ["x = {s}", "y = {s}", "t = {s}", "k = n / 2", "x = x + {s}",
              "y = maxval(a) - minval(a)", "t = sum(p)"]
ODD_STMTS = ["write(*,*) x, y", "if (n < 0) return", "call helper(a, n, x)",
             "call helper(a(2:n), n - 1, x)", "call helper(p(:,1), n, y)",
             "call helper(v1, 4, t)", "call helper(a, n, a(1))",
             "call helper(b, n, t)", "call helper(c, n, y)",
             "print *, 'value', t", "x = real(size(a), wp)"]

# "kinds" variant (C04): kind parameters also live in a module of their own,
# the helper imports them while the caller has same-named local constants,
# and the caller declares PARAMETER arrays and constants that depend on
# other constants - so merges rename constants that declarations depend on.
KINDS_MODULE = """module kinds_mod
  implicit none
  integer, parameter :: wp = kind(1.0d0)
  integer, parameter :: wp_1 = kind(1.0)
  integer, parameter :: ik = kind(1)
end module kinds_mod
"""
KINDS_DECLS = """
  integer, parameter :: ik = kind(1)
  integer, parameter :: nloc = 4
  real(kind=wp), dimension(nloc), parameter :: w4 = (/1.0, 2.0, 3.0, 4.0/)
  integer(kind=ik), dimension(2), parameter :: perm = (/2, 1/)
  real(kind=wp), parameter :: half = 0.5_wp
  real(kind=wp), dimension(nloc) :: wloc
"""
KINDS_STMTS = ["x = w4(2) * x", "v1(:) = w4(:)", "k = perm(1)",
               "wloc(:) = w4(:) * half", "t = half * y", "v2 = wloc",
               "x = x + wloc(perm(2))"]
HELPER_KINDS = """
  subroutine helper(arr, n, x)
    use kinds_mod, only: wp_1, wp, ik
    integer, intent(in) :: n
    real(kind=wp), dimension(n), intent(inout) :: arr
    real(kind=wp), intent(inout) :: x
    real(kind=wp) :: t, y
    real(kind=wp_1) :: shalf
    integer(kind=ik) :: i, k
    shalf = 0.5_wp_1
{body}
  end subroutine helper
"""

# "modvars" variant (C04): the enclosing module declares variables whose
# names are the ones PSyclone's transformations generate for temporaries
# (with the suffix a clash would add), and the routine uses them - so a name
# chosen without looking at the enclosing scope captures a module variable.
MODVAR_DECLS = """  real(kind=kind(1.0d0)) :: res_max_1, res_min_1, res_abs_1, tmp_abs_1
  real(kind=kind(1.0d0)) :: res_sign_1, tmp_sign_1, tmp_max_1, tmp_min_1
  integer :: idx_1, i_out_var_1, j_out_var_1, i_el_inner_1
"""
MODVAR_STMTS = ["x = res_max_1 + 1.0_wp", "res_abs_1 = y", "t = tmp_abs_1",
                "res_min_1 = x * 2.0_wp", "y = res_sign_1 + tmp_sign_1",
                "k = idx_1 + 1", "tmp_max_1 = t", "x = tmp_min_1",
                "k = i_out_var_1 + j_out_var_1", "i_el_inner_1 = k"]

HELPER = """
  subroutine helper(arr, n, x)
    integer, intent(in) :: n
    real(kind=kind(1.0d0)), dimension(n), intent(inout) :: arr
    real(kind=kind(1.0d0)), intent(inout) :: x
    real(kind=kind(1.0d0)) :: t, y
    integer :: i, k
{body}
  end subroutine helper
"""
HELPER_BODIES = [
    ["t = x * 2.0d0", "do i = 1, n", "  arr(i) = arr(i) + t", "end do",
     "x = t"],
    ["k = n / 2", "y = 0.0d0", "do i = 1, k", "  y = y + arr(i)", "end do",
     "x = y"],
    ["arr(:) = arr(:) * x", "t = sum(arr)", "x = t"],
    ["do i = 1, n", "  t = arr(i)", "  arr(i) = t * t", "end do"],
    ["if (n < 1) return", "arr(1) = x", "x = arr(n)"],
]


def line(t):
    return {"k": "line", "t": t}


def _s(rng, tmpl):
    return tmpl.replace("{s}", pick(rng, SCALAR_EXPR))


def gen_loop(rng, depth=1):
    if depth == 1 and rng.random() < 0.45:
        inner = {"k": "do", "head": pick(rng, ["do i = 1, n", "do i = 1, n",
                                               "do i = 1, n", "do i = 1, n, 8",
                                               "do i = 1, n, k",
                                               "do i = 2, n - 1"]),
                 "body": [line(_s(rng, pick(rng, LOOP2_STMTS)))
                          for _ in range(rng.randint(1, 3))]}
        outer_body = [inner]
        if rng.random() < 0.3:
            outer_body.insert(0, line(pick(rng, ["t = b(j)", "k = j"])))
        if rng.random() < 0.2:
            outer_body.append(line("b(j) = t"))
        return {"k": "do", "head": pick(rng, ["do j = 1, n", "do j = 1, n",
                                              "do j = 1, n, 4",
                                              "do j = 1, k"]),
                "body": outer_body}
    body = []
    for _ in range(rng.randint(1, 4)):
        if rng.random() < 0.2:
            body.append({"k": "if",
                         "head": pick(rng, ["if (a(i) > 0.0_wp) then",
                                            "if (i > 2) then",
                                            "if (x < y) then"]),
                         "then": [line(_s(rng, pick(rng, LOOP_STMTS)))],
                         "else": [line(_s(rng, pick(rng, LOOP_STMTS)))]
                         if rng.random() < 0.4 else []})
        else:
            body.append(line(_s(rng, pick(rng, LOOP_STMTS))))
    head = pick(rng, ["do i = 1, n", "do i = 1, n", "do i = 2, n - 1",
                      "do i = n, 1, -1", "do i = 1, n, 2",
                      "do i = 1, min(n, 4)"])
    return {"k": "do", "head": head, "body": body}


def gen_program(rng):
    stmts = []
    nst = rng.randint(3, 9)
    for _ in range(nst):
        kind = weighted(rng, [(4, "loop"), (3, "array"), (3, "misc"),
                              (1.2, "odd"), (1, "if")])
        if kind == "loop":
            stmts.append(gen_loop(rng))
        elif kind == "array":
            stmts.append(line(pick(rng, ARRAY_STMTS)))
        elif kind == "misc":
            stmts.append(line(_s(rng, pick(rng, MISC_STMTS))))
        elif kind == "odd":
            stmts.append(line(pick(rng, ODD_STMTS)))
        else:
            stmts.append({"k": "if", "head": "if (x > 1.0_wp) then",
                          "then": [line(_s(rng, pick(rng, MISC_STMTS))),
                                   line(pick(rng, ARRAY_STMTS))],
                          "else": [gen_loop(rng)]
                          if rng.random() < 0.4 else []})
    prog = {"stmts": stmts, "helper": pick(rng, HELPER_BODIES),
            "decl_variant": rng.randrange(3)}
    if rng.random() < 0.3:
        prog["modvars"] = True
        for _ in range(rng.randint(3, 5)):
            stmts.insert(rng.randrange(len(stmts) + 1),
                         line(pick(rng, MODVAR_STMTS)))
        # two more loops that use the same intrinsic, so that one
        # transformation applied to both creates equally named temporaries
        # in two inner scopes
        tmpl = pick(rng, ["b(i) = max(a(i), c(i))", "a(i) = abs(b(i))",
                          "c(i) = min(a(i), b(i), x)",
                          "b(i) = sign(a(i), c(i))"])
        for head in ("do i = 1, n", "do i = 2, n - 1"):
            stmts.insert(rng.randrange(len(stmts) + 1),
                         {"k": "do", "head": head, "body": [line(tmpl)]})
    if rng.random() < 0.35:
        prog["kinds"] = True
        prog["kinded_constructor"] = rng.random() < 0.5
        for _ in range(rng.randint(1, 3)):
            stmts.insert(rng.randrange(len(stmts) + 1),
                         line(pick(rng, KINDS_STMTS)))
        if not any("call helper" in st.get("t", "") for st in stmts):
            stmts.insert(rng.randrange(len(stmts) + 1),
                         line(pick(rng, ["call helper(a, n, x)",
                                         "call helper(v1, 4, t)",
                                         "call helper(wloc, nloc, y)"])))
    return prog


def _emit(stmts, ind, out):
    pad = "  " * ind
    for st in stmts:
        if st["k"] == "line":
            out.append(pad + st["t"])
        elif st["k"] == "do":
            out.append(pad + st["head"])
            _emit(st["body"], ind + 1, out)
            out.append(pad + "end do")
        else:
            out.append(pad + st["head"])
            _emit(st["then"], ind + 1, out)
            if st.get("else"):
                out.append(pad + "else")
                _emit(st["else"], ind + 1, out)
            out.append(pad + "end if")


def program_text(prog):
    kinds = bool(prog.get("kinds"))
    out = KINDS_MODULE.strip("\n").split("\n") if kinds else []
    out += ["module m_mod", "  implicit none"]
    if prog.get("modvars"):
        out += MODVAR_DECLS.strip("\n").split("\n")
    out += ["contains", "  subroutine sub(n, a, b, p, q)"]
    out += [ln for ln in DECLS.strip("\n").split("\n")]
    if kinds:
        # constants go straight after wp, before the executable part
        decls = KINDS_DECLS
        if prog.get("kinded_constructor"):
            decls = decls.replace("(/1.0, 2.0, 3.0, 4.0/)",
                                  "(/1.0_wp, 2.0_wp, 3.0_wp, 4.0_wp/)")
        out += [ln for ln in decls.strip("\n").split("\n")]
    body = []
    _emit(prog["stmts"], 2, body)
    out += body
    out.append("  end subroutine sub")
    hb = "\n".join("    " + ln for ln in prog["helper"])
    out += (HELPER_KINDS if kinds else HELPER).format(
        body=hb).strip("\n").split("\n")
    out.append("end module m_mod")
    return "\n".join(out) + "\n"


def stmt_positions(prog):
    out = []

    def rec(lst):
        for i, st in enumerate(lst):
            out.append((lst, i))
            if st["k"] == "do":
                rec(st["body"])
            elif st["k"] == "if":
                rec(st["then"])
                rec(st.get("else", []))
    rec(prog["stmts"])
    return out


def shrink_candidates(prog):
    import copy
    n = len(stmt_positions(prog))
    for k in range(n - 1, -1, -1):
        cand = copy.deepcopy(prog)
        lst, i = stmt_positions(cand)[k]
        st = lst[i]
        del lst[i]
        yield cand
        if st["k"] in ("if", "do"):
            cand = copy.deepcopy(prog)
            lst, i = stmt_positions(cand)[k]
            st = lst[i]
            lst[i:i + 1] = st["then"] if st["k"] == "if" else st["body"]
            if st["k"] == "if":
                yield cand
