"""Optional interpreter-level performance aid (never affects verdicts):
see chunkcache.c.  Built on demand with the system C compiler; if anything
fails the checks simply run slower."""
import ctypes
import os
import subprocess

ROOT = os.path.dirname(os.path.dirname(os.path.abspath(__file__)))
SRC = os.path.join(ROOT, "simkit", "chunkcache.c")
LIB = os.path.join(ROOT, "build", "chunkcache.so")
_state = {"installed": False}


def build():
    os.makedirs(os.path.dirname(LIB), exist_ok=True)
    if os.path.exists(LIB) and os.path.getmtime(LIB) >= os.path.getmtime(SRC):
        return True
    for cc in ("cc", "gcc", "clang"):
        try:
            tmp = LIB + f".{os.getpid()}.tmp"
            subprocess.run([cc, "-O2", "-shared", "-fPIC", "-o", tmp, SRC],
                           check=True, capture_output=True, timeout=120)
            os.replace(tmp, LIB)
            return True
        except Exception:
            continue
    return False


class _Arena(ctypes.Structure):
    _fields_ = [("ctx", ctypes.c_void_p), ("alloc", ctypes.c_void_p),
                ("free", ctypes.c_void_p)]


def install():
    if _state["installed"] or os.environ.get("VERIF_NO_CHUNKCACHE"):
        return _state["installed"]
    try:
        if not build():
            return False
        lib = ctypes.CDLL(LIB)
        cur = _Arena()
        ctypes.pythonapi.PyObject_GetArenaAllocator(ctypes.byref(cur))
        lib.chunkcache_wrap.restype = ctypes.POINTER(_Arena)
        lib.chunkcache_wrap.argtypes = [ctypes.POINTER(_Arena)]
        mine = lib.chunkcache_wrap(ctypes.byref(cur))
        ctypes.pythonapi.PyObject_SetArenaAllocator(mine)
        _state["installed"] = True
        _state["lib"] = lib
    except Exception:
        return False
    return True
