"""E4: the transformation-history machine (C26, C10, C04).

State: the PSyIR of a generated module.  An operation is a real PSyclone
transformation (class, constructor variant, target node(s) chosen by seeded
index into walk(Node), options).  Accepted operations change the state;
refused ones (TransformationError) must not - the refusal raised part-way
through apply() is the "crash point".  No refusal is ever injected.
"""
import traceback

from simkit.core import pick, weighted, digest

# class name -> (preferred target node types, calling convention)
LOOPS = ("Loop",)
TABLE = {
    "ChunkLoopTrans": (LOOPS, "node"), "LoopSwapTrans": (LOOPS, "node"),
    "LoopTiling2DTrans": (LOOPS, "node"),
    "HoistLoopBoundExprTrans": (LOOPS, "node"),
    "OMPLoopTrans": (LOOPS, "node"), "OMPParallelLoopTrans": (LOOPS, "node"),
    "ACCLoopTrans": (LOOPS, "node"), "OMPTaskloopTrans": (LOOPS, "node"),
    "ReplaceInductionVariablesTrans": (LOOPS, "node"),
    "OMPTaskTrans": (LOOPS, "node"), "ColourTrans": (LOOPS, "node"),
    "LoopFuseTrans": (LOOPS, "two"),
    "MoveTrans": (("Assignment", "Loop", "Call"), "move"),
    "HoistTrans": (("Assignment",), "node"),
    "ArrayAssignment2LoopsTrans": (("Assignment",), "node"),
    "ArrayAccess2LoopTrans": (("Assignment",), "node"),
    "AllArrayAccess2LoopTrans": (("Assignment",), "node"),
    "Reference2ArrayRangeTrans": (("Reference",), "node"),
    "Abs2CodeTrans": (("IntrinsicCall",), "node"),
    "Min2CodeTrans": (("IntrinsicCall",), "node"),
    "Max2CodeTrans": (("IntrinsicCall",), "node"),
    "Sign2CodeTrans": (("IntrinsicCall",), "node"),
    "DotProduct2CodeTrans": (("IntrinsicCall",), "node"),
    "Matmul2CodeTrans": (("IntrinsicCall",), "node"),
    "Sum2LoopTrans": (("IntrinsicCall",), "node"),
    "Product2LoopTrans": (("IntrinsicCall",), "node"),
    "Maxval2LoopTrans": (("IntrinsicCall",), "node"),
    "Minval2LoopTrans": (("IntrinsicCall",), "node"),
    "InlineTrans": (("Call",), "node"),
    "FoldConditionalReturnExpressionsTrans": (("Routine",), "node"),
    "HoistLocalArraysTrans": (("Routine",), "node"),
    "ACCRoutineTrans": (("Routine",), "node"),
    "OMPDeclareTargetTrans": (("Routine",), "node"),
    "ACCEnterDataTrans": (("Routine", "Schedule"), "node"),
    "ACCUpdateTrans": (("Routine", "Schedule"), "node"),
    "OMPTaskwaitTrans": (("OMPParallelDirective",), "node"),
    "OMPParallelTrans": (("Loop", "Assignment", "OMPDoDirective"), "region"),
    "OMPSingleTrans": (("Loop", "Assignment"), "region"),
    "OMPMasterTrans": (("Loop", "Assignment"), "region"),
    "OMPTargetTrans": (("Loop", "Assignment"), "region"),
    "ACCParallelTrans": (("Loop", "Assignment", "ACCLoopDirective"),
                         "region"),
    "ACCKernelsTrans": (("Loop", "Assignment"), "region"),
    "ACCDataTrans": (("Loop", "Assignment", "ACCKernelsDirective",
                      "ACCParallelDirective"), "region"),
    "ProfileTrans": (("Loop", "Assignment"), "region"),
    "ExtractTrans": (("Loop", "Assignment"), "region"),
    "NanTestTrans": (("Loop", "Assignment"), "region"),
    "ReadOnlyVerifyTrans": (("Loop", "Assignment"), "region"),
    "PSyDataTrans": (("Loop", "Assignment"), "region"),
    # domain specific ones: exercised on generic PSyIR for their refusals
    "Dynamo0p3AsyncHaloExchangeTrans": ((), "node"),
    "Dynamo0p3ColourTrans": (LOOPS, "node"),
    "Dynamo0p3KernelConstTrans": ((), "node"),
    "Dynamo0p3OMPLoopTrans": (LOOPS, "node"),
    "Dynamo0p3RedundantComputationTrans": (LOOPS, "node"),
    "DynamoOMPParallelLoopTrans": (LOOPS, "node"),
    "GOceanOMPLoopTrans": (LOOPS, "node"),
    "GOceanOMPParallelLoopTrans": (LOOPS, "node"),
    "KernelImportsToArguments": ((), "node"),
}
CTOR_VARIANTS = {
    "OMPLoopTrans": [{}, {"omp_directive": "paralleldo"},
                     {"omp_schedule": "dynamic"},
                     {"omp_directive": "teamsdistributeparalleldo"},
                     {"omp_directive": "loop"},
                     {"omp_schedule": "static,2"}],
    "OMPParallelLoopTrans": [{}, {"omp_schedule": "guided"}],
    "ACCParallelTrans": [{}, {"default_present": False}],
    "OMPSingleTrans": [{}, {"nowait": True}],
    "OMPTaskloopTrans": [{}, {"grainsize": 4}, {"num_tasks": 2},
                         {"nogroup": True}],
}
OPTIONS = [None, None, {}, {"collapse": 2}, {"collapse": 3}, {"force": True},
           {"independent": False}, {"sequential": True}, {"chunksize": 4},
           {"tilesize": 4}, {"position": "after"}, {"position": "before"},
           {"region_name": ("mod", "reg")}, {"verbose": True},
           {"allow_string": True}, {"gang": True, "vector": True},
           {"nowait": True}, {"force": False, "collapse": 2},
           {"default_present": False}, {"apply_to_first_matching": True},
           {"index": 0}, {"allow_call": True}, {"disable_loop_check": True}]


# options that only make sense for particular classes, with several values
# (an index into this list travels in the operation as "copt")
CLASS_OPTIONS = {
    "LoopTiling2DTrans": [{"tilesize": 2}, {"tilesize": 4}, {"tilesize": 8},
                          {"tilesize": 16}, {"tilesize": 3}],
    "ChunkLoopTrans": [{"chunksize": 2}, {"chunksize": 4}, {"chunksize": 8},
                       {"chunksize": 16}, {"chunksize": 3}],
    "OMPLoopTrans": [{"collapse": 2}, {"collapse": 3}, {"collapse": 1}],
    "OMPParallelLoopTrans": [{"collapse": 2}, {"collapse": 3}],
    "OMPTaskloopTrans": [{"nogroup": True}, {"collapse": 2}],
    "OMPTaskTrans": [{"collapse": 2}],
    "ACCLoopTrans": [{"collapse": 2}, {"sequential": True},
                     {"gang": True}, {"vector": True},
                     {"sequential": True, "gang": True},
                     {"independent": False, "collapse": 2}],
    "ACCKernelsTrans": [{"default_present": True},
                        {"default_present": False}],
    "MoveTrans": [{"position": "before"}, {"position": "after"}],
    "InlineTrans": [{"force": False}],
    "HoistLoopBoundExprTrans": [{}],
}


def all_classes():
    import inspect
    import psyclone.psyir.transformations as T1
    import psyclone.transformations as T2
    from psyclone.psyGen import Transformation
    seen = {}
    for mod in (T1, T2):
        for name in dir(mod):
            obj = getattr(mod, name)
            if inspect.isclass(obj) and issubclass(obj, Transformation) \
                    and not inspect.isabstract(obj):
                seen[name] = obj
    return seen


def gen_op(rng, names, weights=None):
    name = rng.choices(names, weights)[0] if weights else pick(rng, names)
    return {"cls": name, "ctor": rng.randrange(8),
            "t": rng.randrange(1 << 20), "t2": rng.randrange(1 << 20),
            "pref": rng.random() < 0.85, "span": pick(rng, [1, 1, 1, 2, 3]),
            "opt": rng.randrange(len(OPTIONS) * 2),
            "copt": rng.randrange(16) if rng.random() < 0.5 else None}


def resolve_target(root, op):
    from psyclone.psyir.nodes import Node
    nodes = root.walk(Node)
    pref, conv = TABLE.get(op["cls"], ((), "node"))
    pool = nodes
    if op["pref"] and pref:
        cand = [n for n in nodes if type(n).__name__ in pref or
                any(c.__name__ in pref for c in type(n).__mro__)]
        if cand:
            pool = cand
    node = pool[op["t"] % len(pool)]
    return node, conv, nodes


def apply_op(root, op, classes, observer=None):
    """Apply one operation to the tree under `root`.
    Returns dict(status, err, site, late_mutations, desc)."""
    from psyclone.psyir.transformations import TransformationError
    cls = classes[op["cls"]]
    variants = CTOR_VARIANTS.get(op["cls"], [{}])
    kwargs = variants[op["ctor"] % len(variants)]
    node, conv, nodes = resolve_target(root, op)
    opts = OPTIONS[op["opt"] % len(OPTIONS)] if op["opt"] < len(OPTIONS) \
        else None
    if op.get("copt") is not None and op["cls"] in CLASS_OPTIONS:
        copts = CLASS_OPTIONS[op["cls"]]
        opts = copts[op["copt"] % len(copts)]
    desc = {"cls": op["cls"], "ctor": kwargs, "target": type(node).__name__,
            "opts": None if opts is None else sorted(opts)}
    try:
        trans = cls(**kwargs)
    except Exception as err:
        return {"status": "ctor-error", "err": type(err).__name__,
                "desc": desc}
    if observer is not None:
        observer.reset()
    try:
        if conv == "two":
            sib = node.parent.children if node.parent else [node]
            pos = sib.index(node) if node in sib else 0
            other = sib[pos + 1] if pos + 1 < len(sib) and op["pref"] \
                else nodes[op["t2"] % len(nodes)]
            trans.apply(node, other, opts) if opts is not None else \
                trans.apply(node, other)
        elif conv == "move":
            loc = nodes[op["t2"] % len(nodes)]
            if op["pref"] and node.parent is not None:
                sib = node.parent.children
                loc = sib[op["t2"] % len(sib)]
            trans.apply(node, loc, opts) if opts is not None else \
                trans.apply(node, loc)
        elif conv == "region" and node.parent is not None and \
                op["span"] > 1:
            pos = node.position
            target = node.parent.children[pos:pos + op["span"]]
            desc["span"] = len(target)
            trans.apply(target, opts) if opts is not None else \
                trans.apply(target)
        else:
            trans.apply(node, opts) if opts is not None else \
                trans.apply(node)
    except TransformationError as err:
        tb = traceback.extract_tb(err.__traceback__)
        site = "?"
        for fr in reversed(tb):
            if "/psyclone/" in fr.filename:
                site = fr.filename.split("/psyclone/")[-1] + ":" + fr.name
                break
        return {"status": "refused", "err": str(err.value)[:160],
                "site": site, "late": observer.count if observer else 0,
                "desc": desc}
    except RecursionError:
        raise
    except Exception as err:
        tb = traceback.extract_tb(err.__traceback__)
        site = "?"
        for fr in reversed(tb):
            if "/psyclone/" in fr.filename:
                site = fr.filename.split("/psyclone/")[-1] + ":" + fr.name
                break
        return {"status": "other-exception", "err": type(err).__name__ +
                ": " + str(err)[:120], "site": site, "desc": desc}
    return {"status": "accepted", "desc": desc}


class MutationObserver:
    """Counts tree / symbol-table mutations (verif-side wrappers, no repo
    hook) so that a refusal can be classified early (nothing touched yet)
    or late (state had already been modified: the interesting crash
    point)."""

    def __init__(self):
        self.count = 0
        self.root = None
        self._saved = []

    def reset(self):
        self.count = 0

    def install(self):
        from psyclone.psyir.nodes.node import ChildrenList
        from psyclone.psyir.symbols import SymbolTable
        obs = self

        def in_state(obj):
            """Only mutations of the tree under test count (analyses work
            on copies, which are nobody's state)."""
            if obs.root is None:
                return True
            node = getattr(obj, "_node_reference", None)
            if node is None:
                node = getattr(obj, "_node", None)
            hops = 0
            while node is not None and hops < 200:
                if node is obs.root:
                    return True
                node = node.parent
                hops += 1
            return False

        def wrap(owner, name):
            orig = getattr(owner, name)

            def inner(self_, *a, **kw):
                if in_state(self_):
                    obs.count += 1
                return orig(self_, *a, **kw)
            inner.__name__ = name
            self._saved.append((owner, name, orig))
            setattr(owner, name, inner)
        for meth in ("append", "__setitem__", "insert", "extend",
                     "__delitem__", "remove", "pop", "reverse", "clear"):
            wrap(ChildrenList, meth)
        for meth in ("add", "remove", "rename_symbol", "swap",
                     "specify_argument_list"):
            wrap(SymbolTable, meth)
        return self

    def uninstall(self):
        for owner, name, orig in reversed(self._saved):
            setattr(owner, name, orig)
        self._saved = []


def snapshot(root, with_text=True):
    """What "the PSyIR, including its symbol tables" is taken to be."""
    from psyclone.psyir.nodes import Node, ScopingNode
    from psyclone.psyir.backend.fortran import FortranWriter
    snap = {}
    if with_text:
        try:
            snap["text"] = FortranWriter()(root)
        except Exception as err:
            snap["text"] = "<writer refused: " + type(err).__name__ + ">"
    tabs = []
    symid = {}
    for node in root.walk(ScopingNode):
        tab = node.symbol_table
        for sym in tab.symbols:
            symid.setdefault(id(sym), len(symid))
        entry = {"names": [(k, type(s).__name__, str(s))
                           for k, s in sorted(tab.symbols_dict.items())],
                 "tags": sorted((t, s.name) for t, s in
                                tab.tags_dict.items()),
                 "args": [s.name for s in tab._argument_list]}
        tabs.append(entry)
    snap["tables"] = tabs
    tree = []
    for node in root.walk(Node):
        item = [type(node).__name__, node.depth,
                sorted(node.annotations) if node.annotations else []]
        sym = getattr(node, "symbol", None)
        if sym is not None and hasattr(sym, "name"):
            item.append(sym.name)
            item.append(symid.get(id(sym), -1))
        if type(node).__name__ == "Literal":
            item.append(node.value)
        if type(node).__name__ in ("BinaryOperation", "UnaryOperation"):
            item.append(node.operator.name)
        if hasattr(node, "variable") and type(node).__name__ == "Loop":
            item.append(node.variable.name)
        tree.append(item)
    snap["tree"] = tree
    return snap


def diff_snapshots(a, b):
    out = {}
    for key in ("text", "tables", "tree"):
        if a.get(key) != b.get(key):
            if key == "text":
                al, bl = a["text"].split("\n"), b["text"].split("\n")
                out["text"] = [(x, y) for x, y in zip(al, bl) if x != y][:4]
                if len(al) != len(bl):
                    out["text_lines"] = (len(al), len(bl))
            elif key == "tables":
                for i, (x, y) in enumerate(zip(a["tables"], b["tables"])):
                    if x != y:
                        xs = {n[0] for n in x["names"]}
                        ys = {n[0] for n in y["names"]}
                        out["tables"] = {"scope": i,
                                         "added": sorted(ys - xs),
                                         "removed": sorted(xs - ys),
                                         "changed": [n for n in y["names"]
                                                     if n not in x["names"]
                                                     and n[0] in xs][:3],
                                         "tags_changed":
                                         x["tags"] != y["tags"],
                                         "args_changed":
                                         x["args"] != y["args"]}
                        break
                if len(a["tables"]) != len(b["tables"]):
                    out["n_scopes"] = (len(a["tables"]), len(b["tables"]))
            else:
                out["tree_nodes"] = (len(a["tree"]), len(b["tree"]))
                for i, (x, y) in enumerate(zip(a["tree"], b["tree"])):
                    if x != y:
                        out["tree_first_diff"] = (i, x, y)
                        break
    return out
