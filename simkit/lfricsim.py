"""E5: LFRic distributed-memory simulator (stub infrastructure).

A 1-D chain of N global cells split over R ranks with halos of depth H.
The *generated PSy-layer text* is interpreted line by line on every rank
against this stub: mesh queries, function-space queries, field proxies with
dirty flags, halo exchanges (blocking and asynchronous, as messages between
rank tasks), colour maps, kernel calls (a kernel is a hash keyed on global
ids, see DESIGN 4.10) and inlined built-in assignments.
"""
import hashlib
import re

M61 = (1 << 61) - 1


def mix(*parts):
    txt = "\x1f".join(repr(p) for p in parts)
    return int.from_bytes(hashlib.blake2b(txt.encode(),
                                          digest_size=8).digest(),
                          "big") & M61


class Discard(Exception):
    """Scenario outside the modelled subset (counted, never a verdict)."""


class Violation(Exception):
    def __init__(self, cls, detail):
        super().__init__(cls)
        self.cls = cls
        self.detail = detail


class Mesh:
    def __init__(self, ncells, nranks, depth):
        self.N, self.R, self.H = ncells, nranks, depth
        base = ncells // nranks
        self.bounds = []
        s = 0
        for r in range(nranks):
            e = s + base + (1 if r < ncells % nranks else 0)
            self.bounds.append((s, e))
            s = e
        self.local_cells = []      # per rank: global ids in local order
        self.halo_count = []       # per rank: [cum count up to depth d]
        for r in range(nranks):
            s, e = self.bounds[r]
            cells = list(range(s, e))
            cum = []
            for d in range(1, depth + 1):
                for g in (s - d, e - 1 + d):
                    if 0 <= g < ncells and g not in cells:
                        cells.append(g)
                cum.append(len(cells))
            self.local_cells.append(cells)
            self.halo_count.append(cum)

    def owner_of_cell(self, g):
        for r, (s, e) in enumerate(self.bounds):
            if s <= g < e:
                return r
        raise KeyError(g)

    def n_owned(self, r):
        s, e = self.bounds[r]
        return e - s

    def last_halo_cell(self, r, d=None):
        d = self.H if d is None else d
        if d < 1 or d > self.H:
            raise Discard(f"halo depth {d} outside 1..{self.H}")
        return self.halo_count[r][d - 1]

    def cell_depth(self, r, g):
        s, e = self.bounds[r]
        if s <= g < e:
            return 0
        return s - g if g < s else g - (e - 1)

    # colours: no two cells of a colour share a vertex
    def colour_of(self, g):
        return g % 2 + 1

    def cmap(self, r, colour):
        return [i + 1 for i, g in enumerate(self.local_cells[r])
                if self.colour_of(g) == colour]

    def last_edge_cell_all_colours(self, r, colour):
        return sum(1 for g in self.local_cells[r][:self.n_owned(r)]
                   if self.colour_of(g) == colour)

    def last_halo_cell_all_colours(self, r, colour, d):
        n = self.last_halo_cell(r, d)
        return sum(1 for g in self.local_cells[r][:n]
                   if self.colour_of(g) == colour)


class Space:
    """'cont': dofs on the N+1 vertices; 'disc': one dof per cell."""

    def __init__(self, mesh, kind):
        self.mesh, self.kind = mesh, kind
        self.local_dofs = []   # per rank: global dof ids in local order
        self.marks = []        # per rank: (last_owned, last_annexed,
        #                         [last_halo(d)])
        for r in range(mesh.R):
            s, e = mesh.bounds[r]
            owned, annexed = [], []
            for g in range(s, e):
                for dof in self.cell_dofs(g):
                    tgt = owned if self.owner(dof) == r else annexed
                    if dof not in owned and dof not in annexed:
                        tgt.append(dof)
            order = owned + annexed
            halos = []
            for d in range(1, mesh.H + 1):
                lo = mesh.n_owned(r) if d == 1 else mesh.halo_count[r][d - 2]
                for g in mesh.local_cells[r][lo:mesh.halo_count[r][d - 1]]:
                    for dof in self.cell_dofs(g):
                        if dof not in order:
                            order.append(dof)
                halos.append(len(order))
            self.local_dofs.append(order)
            self.marks.append((len(owned), len(owned) + len(annexed), halos))

    def cell_dofs(self, g):
        return (g, g + 1) if self.kind == "cont" else (g,)

    def owner(self, dof):
        if self.kind == "disc":
            return self.mesh.owner_of_cell(dof)
        return self.mesh.owner_of_cell(max(dof - 1, 0))

    def ndofs_global(self):
        return self.mesh.N + (1 if self.kind == "cont" else 0)

    def dof_depth(self, r, dof):
        """0 owned, 0.5 annexed, d halo depth."""
        idx = self.local_dofs[r].index(dof) + 1
        owned, annexed, halos = self.marks[r]
        if idx <= owned:
            return 0
        if idx <= annexed:
            return 0.5
        for d, last in enumerate(halos, 1):
            if idx <= last:
                return d
        raise KeyError(dof)


class Field:
    def __init__(self, name, space, mesh, init_global, clean_depth,
                 annexed_valid, garbage_seed):
        self.name, self.space, self.mesh = name, space, mesh
        self.data = []       # per rank: dict global dof -> value
        self.dirty = []      # per rank: list H flags
        self.xseq = [0] * mesh.R
        self.pending = [None] * mesh.R   # async exchange in flight
        for r in range(mesh.R):
            vals = {}
            for dof in space.local_dofs[r]:
                dep = space.dof_depth(r, dof)
                good = dep == 0 or (dep == 0.5 and (annexed_valid or
                                                    clean_depth >= 1)) or \
                    (dep >= 1 and dep <= clean_depth)
                vals[dof] = init_global[dof] if good else \
                    mix("garbage", garbage_seed, name, r, dof)
            self.data.append(vals)
            self.dirty.append([0 if d <= clean_depth else 1
                               for d in range(1, mesh.H + 1)])


# --------------------------------------------------------------------------
# kernel semantics (shared by the distributed run and the global reference)
# --------------------------------------------------------------------------
def kernel_apply(kern, actual_spaces, g, getv, setv, snap, ncells):
    """kern: scenario kernel dict; getv(field, dof) / setv(field, dof, v);
    snap(field, dof): pre-loop value (READINC)."""
    reads = []
    for pos, arg in enumerate(kern["args"]):
        fname = arg["field"]
        sp = actual_spaces[fname]
        acc = arg["access"]
        if acc == "gh_read":
            ext = arg.get("_extent", 0) if arg["stencil"] else 0
            cells = [c for c in range(g - ext, g + ext + 1)
                     if 0 <= c < ncells]
            reads.append((pos, [(c, dof, getv(fname, dof)) for c in cells
                                for dof in sp.cell_dofs(c)]))
        elif acc == "gh_readwrite":
            reads.append((pos, [(dof, getv(fname, dof))
                                for dof in sp.cell_dofs(g)]))
        elif acc == "gh_readinc":
            reads.append((pos, [(dof, snap(fname, dof))
                                for dof in sp.cell_dofs(g)]))
    rdig = mix("R", kern["name"], reads)
    for pos, arg in enumerate(kern["args"]):
        fname = arg["field"]
        sp = actual_spaces[fname]
        acc = arg["access"]
        if acc in ("gh_write", "gh_readwrite") and sp.kind == "disc":
            setv(fname, g, mix(kern["name"], pos, g, rdig))
        elif acc in ("gh_inc", "gh_readinc"):
            for p, dof in enumerate(sp.cell_dofs(g)):
                setv(fname, dof, (getv(fname, dof) +
                                  mix(kern["name"], pos, g, p, rdig)) & M61,
                     "inc")
        elif acc == "gh_write" and sp.kind == "cont":
            # contract: every cell sharing the dof writes the same value,
            # a function of the dof and of continuous read fields there
            for dof in sp.cell_dofs(g):
                loc = []
                for p2, a2 in enumerate(kern["args"]):
                    if a2["access"] == "gh_read" and not a2["stencil"] and \
                            actual_spaces[a2["field"]].kind == "cont":
                        loc.append((p2, getv(a2["field"], dof)))
                setv(fname, dof, mix(kern["name"], pos, "dof", dof, loc))


# --------------------------------------------------------------------------
# parsing the generated invoke routine
# --------------------------------------------------------------------------
class Parsed:
    pass


def parse_invoke(code, invoke_name):
    """Returns (setup assignments [(lhs, rhs)], executable statements)."""
    text = code.replace("&\n", "")
    m = re.search(rf"(?is)SUBROUTINE {invoke_name}\s*\((.*?)\)(.*?)"
                  rf"END SUBROUTINE {invoke_name}", text)
    if not m:
        raise Discard("invoke routine not found")
    # join continuation lines
    raw = m.group(2).split("\n")
    lines = []
    for ln in raw:
        s = ln.strip()
        if not s:
            continue
        if lines and lines[-1].endswith("&"):
            lines[-1] = lines[-1][:-1].rstrip() + " " + s.lstrip("&").strip()
        else:
            lines.append(s)
    # split declarations / set-up / executable
    body = [ln for ln in lines if not re.match(
        r"(?i)^(use |integer|real|type\(|logical|character|implicit)", ln)]
    return body


def _expr(txt):
    """Translate a Fortran integer expression of the generated code into a
    Python expression over the environment."""
    t = txt.strip().lower()
    t = re.sub(r"(\w+)_proxy(?:\(\d+\))?%vspace%get_(\w+)\(([^()]*)\)",
               r"VS('\1','\2',\3)", t)
    t = re.sub(r"mesh%get_(\w+)\(([^()]*)\)", r"MESH('\1',\2)", t)
    t = t.replace("',)", "')")
    return t


class RankRun:
    """One rank interpreting the invoke; a generator that yields at
    communication points."""

    def __init__(self, sim, rank, body):
        self.sim, self.r, self.body = sim, rank, body
        self.env = {}
        self.oplog = []
        self.done = False
        self.loop_depth = 0
        self.nsync = 0

    def fld(self, name):
        f = self.sim.fields.get(name)
        if f is None:
            raise Discard("unknown field " + name)
        return f

    def ev(self, txt):
        sim, r = self.sim, self.r
        mesh = sim.mesh

        def VS(fname, what, *a):
            sp = self.fld(fname).space
            owned, annexed, halos = sp.marks[r]
            if what == "last_dof_owned":
                return owned
            if what == "last_dof_annexed":
                return annexed
            if what == "last_dof_halo":
                d = a[0] if a else mesh.H
                if d < 1 or d > mesh.H:
                    raise Discard("dof halo depth out of range")
                return halos[d - 1]
            if what in ("nlayers",):
                return 1
            if what == "ndf":
                return 2 if sp.kind == "cont" else 1
            if what == "undf":
                return len(sp.local_dofs[r])
            raise Discard("vspace query " + what)

        def MESH(what, *a):
            if what == "last_edge_cell":
                return mesh.n_owned(r)
            if what == "last_halo_cell":
                return mesh.last_halo_cell(r, a[0] if a else None)
            if what == "halo_depth":
                return mesh.H
            if what == "ncolours":
                return 2
            raise Discard("mesh query " + what)
        env = dict(self.env)
        env.update({
            "VS": VS, "MESH": MESH,
            "last_halo_cell_all_colours":
                lambda c, d: mesh.last_halo_cell_all_colours(r, c, d),
            "last_edge_cell_all_colours":
                lambda c: mesh.last_edge_cell_all_colours(r, c),
            "cmap": lambda c, i: self._cmap(c, i),
            "min": min, "max": max})
        try:
            return eval(_expr(txt), {"__builtins__": {}}, env)
        except (Discard, Violation):
            raise
        except Exception as err:
            raise Discard(f"cannot evaluate '{txt}': {type(err).__name__} "
                          f"{err}")

    def _cmap(self, colour, i):
        lst = self.sim.mesh.cmap(self.r, colour)
        if i < 1 or i > len(lst):
            raise Violation("colour-map-index-out-of-range",
                            {"colour": colour, "index": i})
        return lst[i - 1]

    # ---- statements ----
    def run(self):
        yield from self.block(0, len(self.body))
        yield ("sync", "end")
        self.done = True

    def find_end(self, start, opener, closer):
        depth = 0
        i = start
        while i < len(self.body):
            up = self.body[i].upper()
            if re.match(opener, up):
                depth += 1
            elif re.match(closer, up):
                depth -= 1
                if depth == 0:
                    return i
            i += 1
        raise Discard("unbalanced block")

    def block(self, lo, hi):
        i = lo
        pending_omp = None
        while i < hi:
            ln = self.body[i]
            up = ln.upper()
            if up.startswith("!$OMP") or up.startswith("!$ACC"):
                low = ln.lower()
                if low.startswith("!$omp parallel do") or \
                        low.startswith("!$omp do") or \
                        low.startswith("!$omp taskloop") or \
                        (low.startswith("!$acc loop") and
                         " seq" not in low) or \
                        low.startswith("!$acc kernels") or \
                        low.startswith("!$omp loop"):
                    pending_omp = low
                if low.startswith("!$omp parallel") and \
                        not low.startswith("!$omp parallel do"):
                    if self.loop_depth == 0 and \
                            self.sim.region_depth.get(self.r, 0) == 0:
                        # the consistent cut before the region as a whole
                        yield ("sync", self.nsync)
                        self.nsync += 1
                    self.sim.note_region(self.r, "enter", low)
                if low.startswith("!$omp end parallel") and \
                        not low.startswith("!$omp end parallel do"):
                    self.sim.note_region(self.r, "exit", low)
                if low.startswith("!$acc parallel"):
                    self.sim.note_region(self.r, "enter", low)
                if low.startswith("!$acc end parallel"):
                    self.sim.note_region(self.r, "exit", low)
                i += 1
                continue
            if up.startswith("!"):
                i += 1
                continue
            m = re.match(r"(?i)^DO (\w+)\s*=\s*(.+)$", ln)
            if m:
                end = self.find_end(i, r"^DO \w+\s*=", r"^END DO")
                var = m.group(1).lower()
                parts = split_args(m.group(2))
                start, stop = self.ev(parts[0]), self.ev(parts[1])
                step = self.ev(parts[2]) if len(parts) > 2 else 1
                par = pending_omp
                pending_omp = None
                if self.loop_depth == 0:
                    # instrumentation only: all ranks line up before every
                    # top-level loop nest so that the flags-vs-data
                    # invariant can be evaluated on a consistent cut - but
                    # not between the loops of one OpenMP parallel region:
                    # their set_dirty/set_clean calls come after the region,
                    # so the state is only *recorded* there
                    if self.sim.region_depth.get(self.r, 0) == 0:
                        yield ("sync", self.nsync)
                        self.nsync += 1
                    self.sim.take_snapshot(self.r)
                self.loop_depth += 1
                if par:
                    self.sim.begin_parallel_loop(self.r, var, par)
                val = start
                while (step > 0 and val <= stop) or (step < 0 and
                                                     val >= stop):
                    self.env[var] = val
                    if par:
                        self.sim.parallel_iteration(self.r, val)
                    if var == "colour":
                        self.sim.colour_loop_seen(self.r)
                    yield from self.block(i + 1, end)
                    val += step
                if par:
                    self.sim.end_parallel_loop(self.r)
                self.loop_depth -= 1
                i = end + 1
                continue
            m = re.match(r"(?i)^IF \((.*)\) THEN$", ln)
            if m:
                end = self.find_end(i, r"^IF \(.*\) THEN$", r"^END IF")
                cond = m.group(1).strip()
                mm = re.match(r"(?i)^(\w+)_proxy(?:\((\d+)\))?%is_dirty\("
                              r"depth=(.*)\)$", cond)
                if not mm:
                    raise Discard("IF condition " + cond)
                fname = vec_name(mm.group(1), mm.group(2))
                depth = self.ev(mm.group(3))
                if self.is_dirty(fname, depth):
                    yield from self.block(i + 1, end)
                i = end + 1
                continue
            m = re.match(r"(?i)^CALL (\w+)_proxy(?:\((\d+)\))?%(\w+)\((.*)\)$",
                         ln)
            if m:
                fname = vec_name(m.group(1), m.group(2))
                what = m.group(3).lower()
                arg = m.group(4).strip()
                arg = re.sub(r"(?i)^depth\s*=", "", arg)
                if what == "set_dirty":
                    self.fld(fname).dirty[self.r] = \
                        [1] * self.sim.mesh.H
                elif what == "set_clean":
                    d = self.ev(arg)
                    self.set_clean(fname, d)
                elif what == "halo_exchange":
                    yield from self.exchange(fname, self.ev(arg), "sync")
                elif what == "halo_exchange_start":
                    yield from self.exchange(fname, self.ev(arg), "start")
                elif what == "halo_exchange_finish":
                    yield from self.exchange(fname, self.ev(arg), "finish")
                else:
                    raise Discard("proxy call " + what)
                i += 1
                continue
            m = re.match(r"(?i)^CALL (\w+)_code\((.*)\)$", ln)
            if m:
                self.kernel_call(m.group(1).lower(), m.group(2))
                i += 1
                continue
            m = re.match(r"(?i)^(\w+)_data\(df\)\s*=\s*(.*)$", ln)
            if m:
                self.builtin(m.group(1).lower(), m.group(2))
                i += 1
                continue
            m = re.match(r"^(\w+)(?:\(\d+\))?\s*(=>|=)\s*(.*)$", ln)
            if m:
                self.setup(m.group(1).lower(), m.group(3))
                i += 1
                continue
            raise Discard("statement outside the modelled subset: " +
                          ln[:80])

    def setup(self, lhs, rhs):
        low = rhs.lower()
        if "%get_proxy()" in low or low.endswith("%data") or \
                "get_mesh()" in low or "get_whole_dofmap()" in low or \
                "get_stencil_dofmap(" in low or "get_stencil_sizes()" in low \
                or "get_colour_map()" in low or \
                "all_colours()" in low or "null()" in low:
            m = re.match(r"(?i)(\w+)_proxy(?:\(\d+\))?%vspace%"
                         r"get_stencil_dofmap\("
                         r"(\w+)\s*,\s*(.*)\)$", rhs.strip())
            if m:
                self.sim.stencil_extent[(self.r, lhs)] = self.ev(m.group(3))
            return
        if lhs.startswith("ndf_") or lhs.startswith("undf_") or \
                lhs == "nlayers":
            return
        self.env[lhs] = self.ev(rhs)

    def is_dirty(self, fname, depth):
        if depth < 1:
            return False
        if depth > self.sim.mesh.H:
            raise Discard("is_dirty depth beyond maximum halo depth")
        return self.fld(fname).dirty[self.r][depth - 1] == 1

    def set_clean(self, fname, depth):
        if depth > self.sim.mesh.H:
            raise Discard("set_clean depth beyond maximum halo depth")
        fl = self.fld(fname).dirty[self.r]
        for d in range(1, depth + 1):
            fl[d - 1] = 0

    def exchange(self, fname, depth, mode):
        sim, r = self.sim, self.r
        fld = self.fld(fname)
        if depth < 1 or depth > sim.mesh.H:
            raise Discard("halo exchange depth beyond maximum halo depth")
        self.oplog.append((mode, fname, depth))
        sp = fld.space
        if mode in ("sync", "start"):
            seq = fld.xseq[r]
            fld.xseq[r] += 1
            owned = sp.marks[r][0]
            snap = {dof: fld.data[r][dof]
                    for dof in sp.local_dofs[r][:owned]}
            sim.mail.setdefault((fname, seq), {})[r] = snap
            sim.counters["halo_exchanges"] = \
                sim.counters.get("halo_exchanges", 0) + 1
            if mode == "start":
                if fld.pending[r] is not None:
                    raise Violation("second-async-exchange-started-before-"
                                    "finish", {"field": fname, "rank": r})
                fld.pending[r] = (seq, depth)
                sim.counters["async_started"] = \
                    sim.counters.get("async_started", 0) + 1
                return
        if mode == "finish":
            if fld.pending[r] is None:
                raise Violation("async-finish-without-start",
                                {"field": fname, "rank": r})
            seq, sdepth = fld.pending[r]
            if sdepth != depth:
                raise Violation("async-finish-depth-differs-from-start",
                                {"field": fname, "start": sdepth,
                                 "finish": depth})
        # wait for every rank's message of this sequence number
        waited = 0
        while len(sim.mail.get((fname, seq), {})) < sim.mesh.R:
            waited += 1
            yield ("wait", fname, seq)
        box = sim.mail[(fname, seq)]
        owned, annexed, halos = sp.marks[r]
        for dof in sp.local_dofs[r][owned:halos[depth - 1]]:
            fld.data[r][dof] = box[sp.owner(dof)][dof]
        if mode == "finish":
            fld.pending[r] = None
        self.set_clean(fname, depth)

    # ---- kernels ----
    def kernel_call(self, kname, argtxt):
        sim, r = self.sim, self.r
        kern = sim.kernels.get(kname)
        if kern is None:
            raise Discard("unknown kernel " + kname)
        args = split_args(argtxt)
        data_args = [a for a in args if re.match(r"(?i)^\w+_data$",
                                                 a.strip())]
        fields = [re.sub(r"(?i)_data$", "", a.strip()).lower()
                  for a in data_args]
        # which stencil map belongs to which field argument: the stencil
        # size/dofmap actuals follow the field's data array
        stencil_maps = {}
        last = None
        run = []        # the data arrays seen since the last non-data actual
        for a in args:
            a = a.strip()
            if re.match(r"(?i)^\w+_data$", a):
                last = a
                run.append(a)
                continue
            m = re.match(r"(?i)^(\w+?)_stencil_size(_\d+)?\(", a)
            if m and last is not None:
                smap = (m.group(1) + "_stencil_map" +
                        (m.group(2) or "")).lower()
                stencil_maps[last.lower()] = smap
                # the components of a field vector (f_1_data, f_2_data, ...)
                # precede their common stencil actuals
                base = m.group(1).lower()
                for other in run:
                    if re.match(rf"(?i)^{re.escape(base)}_\d+_data$", other):
                        stencil_maps[other.lower()] = smap
            run = []
        if len(fields) != len(kern["args"]):
            raise Discard("kernel argument count")
        cell_expr = None
        for a in args:
            m = re.match(r"(?i)^map_\w+\(:\s*,\s*(.*)\)$", a.strip())
            if m:
                cell_expr = m.group(1)
                break
        if cell_expr is None:
            raise Discard("no dofmap argument")
        lc = self.ev(cell_expr)
        mesh = sim.mesh
        if lc < 1 or lc > len(mesh.local_cells[r]):
            raise Violation("kernel-called-on-cell-outside-local-mesh",
                            {"rank": r, "cell": lc})
        g = mesh.local_cells[r][lc - 1]
        bound = dict(kern)
        bound["args"] = []
        for a, fname in zip(kern["args"], fields):
            b = dict(a, field=fname)
            if a["stencil"]:
                key = (r, stencil_maps.get(fname + "_data"))
                if key not in sim.stencil_extent:
                    raise Discard("stencil extent unknown")
                b["_extent"] = sim.stencil_extent[key]
            bound["args"].append(b)
        spaces = {f: self.fld(f).space for f in fields}

        def getv(fname, dof):
            fld = self.fld(fname)
            if dof not in fld.data[r]:
                raise Discard("stencil reaches beyond the maximum halo")
            dep = fld.space.dof_depth(r, dof)
            if fld.pending[r] is not None and dep != 0:
                raise Violation("read-of-in-flight-halo",
                                {"field": fname, "rank": r, "dof": dof})
            sim.note_access(r, fname, dof, "R")
            return fld.data[r][dof]

        def setv(fname, dof, val, how="write"):
            fld = self.fld(fname)
            if fld.pending[r] is not None and \
                    fld.space.dof_depth(r, dof) == 0:
                raise Violation("write-to-in-flight-send-buffer",
                                {"field": fname, "rank": r, "dof": dof})
            sim.note_access(r, fname, dof, "W" if how == "write" else "I")
            fld.data[r][dof] = val

        def snap(fname, dof):
            return sim.loop_snapshot(r, fname, dof)
        sim.counters["kernel_calls"] = sim.counters.get("kernel_calls",
                                                        0) + 1
        if mesh.cell_depth(r, g) > 0:
            sim.counters["kernel_calls_on_halo_cells"] = \
                sim.counters.get("kernel_calls_on_halo_cells", 0) + 1
        kernel_apply(bound, spaces, g, getv, setv, snap, mesh.N)

    def builtin(self, fname, rhs):
        sim, r = self.sim, self.r
        fld = self.fld(fname)
        df = self.env.get("df")
        sp = fld.space
        if df is None or df < 1 or df > len(sp.local_dofs[r]):
            raise Violation("dof-index-outside-local-field",
                            {"field": fname, "df": df})
        dof = sp.local_dofs[r][df - 1]

        def val(m):
            other = self.fld(m.group(1).lower())
            if other.space is not sp:
                # same kind of space => same local numbering in this stub
                if other.space.kind != sp.kind:
                    raise Discard("built-in over different spaces")
            sim.note_access(r, other.name, dof, "R")
            return str(other.data[r][dof])
        expr = re.sub(r"(?i)(\w+)_data\(df\)", val, rhs)
        expr = re.sub(r"(?i)(\d+\.\d*(?:e[-+]?\d+)?)_r_def",
                      lambda m: str(int(float(m.group(1)) * 16)), expr)
        expr = re.sub(r"(?i)(\d+)_i_def", r"\1", expr)
        env = {"a": sim.scalar_a, "__builtins__": {}}
        try:
            out = eval(expr.lower(), env, {})
        except Exception as err:
            raise Discard(f"built-in expression '{rhs}': {err}")
        if fld.pending[r] is not None and sp.dof_depth(r, dof) == 0:
            raise Violation("write-to-in-flight-send-buffer",
                            {"field": fname, "rank": r, "dof": dof})
        sim.note_access(r, fname, dof, "W")
        fld.data[r][dof] = int(out) & M61
        sim.counters["builtin_dofs"] = sim.counters.get("builtin_dofs",
                                                        0) + 1


def vec_name(base, idx):
    return base.lower() if idx is None else f"{base.lower()}_{idx}"


def split_args(txt):
    out, depth, cur = [], 0, ""
    for ch in txt:
        if ch == "(":
            depth += 1
        elif ch == ")":
            depth -= 1
        if ch == "," and depth == 0:
            out.append(cur.strip())
            cur = ""
        else:
            cur += ch
    if cur.strip():
        out.append(cur.strip())
    return out


# --------------------------------------------------------------------------
class Sim:
    def __init__(self, scn, mesh, init, chooser, scalar_a=3):
        """init: {"global": {field: [values]}, "clean": {field: k}}"""
        self.scn, self.mesh = scn, mesh
        self.spaces = {"cont": Space(mesh, "cont"),
                       "disc": Space(mesh, "disc")}
        self.kernels = {k["name"]: k for k in scn["kernels"]}
        self.fields = {}
        from simkit import lfricgen
        for fname, sp in scn["fields"].items():
            kind = "cont" if lfricgen.is_cont(sp) else "disc"
            space = self.spaces[kind]
            self.fields[fname] = Field(
                fname, space, mesh, init["global"][fname],
                init["clean"][fname], scn["annexed"], init["seed"])
        self.mail = {}
        self.stencil_extent = {}
        self.scalar_a = scalar_a
        self.chooser = chooser
        self.counters = {}
        self.trace = []
        self.par = {}           # rank -> current parallel loop record
        self.races = []
        self.region_depth = {}
        self.colour_in_region = False
        self.snapshots = {}
        self.initial_ext = init.get("ext", 1)

    # ---- hooks used by RankRun ----
    def note_region(self, r, what, text):
        d = self.region_depth.get(r, 0)
        self.region_depth[r] = d + (1 if what == "enter" else -1)

    def colour_loop_seen(self, r):
        if self.region_depth.get(r, 0) > 0:
            self.colour_in_region = True

    def begin_parallel_loop(self, r, var, text):
        self.par[r] = {"var": var, "text": text, "iter": None, "rmw": {}}

    def parallel_iteration(self, r, val):
        if r in self.par:
            self.par[r]["iter"] = val

    def end_parallel_loop(self, r):
        rec = self.par.pop(r, None)
        if rec:
            for (fname, dof), iters in rec["rmw"].items():
                if len(iters) > 1:
                    self.races.append({"rank": r, "field": fname,
                                       "dof": dof, "loop": rec["text"],
                                       "iterations": sorted(iters)[:3]})

    def note_access(self, r, fname, dof, kind):
        rec = self.par.get(r)
        if rec and kind == "I" and rec["iter"] is not None:
            rec["rmw"].setdefault((fname, dof), set()).add(rec["iter"])

    def take_snapshot(self, r):
        self.snapshots[r] = {f.name: dict(f.data[r])
                             for f in self.fields.values()}

    def loop_snapshot(self, r, fname, dof):
        # READINC contract: the value the field had before the loop nest
        return self.snapshots[r][fname][dof]

    def check_flags_vs_data(self, where):
        """(ii) the recorded halo state is no cleaner than the data: every
        copy the flags call clean equals its owner's current value."""
        for f in self.fields.values():
            sp = f.space
            for r in range(self.mesh.R):
                owned, annexed, halos = sp.marks[r]
                clean = 0
                for d in range(1, self.mesh.H + 1):
                    if f.dirty[r][d - 1] == 0:
                        clean = d
                    else:
                        break
                if clean == 0:
                    continue
                for dof in sp.local_dofs[r][owned:halos[clean - 1]]:
                    own = sp.owner(dof)
                    if f.data[r][dof] != f.data[own][dof]:
                        raise Violation(
                            "halo-recorded-clean-but-data-stale",
                            {"field": f.name, "rank": r, "dof": dof,
                             "dof_depth": sp.dof_depth(r, dof),
                             "clean_depth": clean, "where": where})

    # ---- driving ----
    def run(self, body, ext):
        runs = []
        for r in range(self.mesh.R):
            rr = RankRun(self, r, body)
            rr.env["ext"] = ext
            rr.env["a"] = self.scalar_a
            runs.append(rr)
        gens = [rr.run() for rr in runs]
        blocked = [None] * self.mesh.R
        done = [False] * self.mesh.R
        steps = 0
        while not all(done):
            runnable = []
            for r in range(self.mesh.R):
                if done[r]:
                    continue
                b = blocked[r]
                if b is not None and b[0] == "wait" and \
                        len(self.mail.get((b[1], b[2]), {})) < self.mesh.R:
                    continue
                if b is not None and b[0] == "sync":
                    continue
                runnable.append(r)
            if not runnable:
                syncs = [b for r, b in enumerate(blocked) if not done[r]]
                if syncs and all(b is not None and b[0] == "sync" and
                                 b == syncs[0] for b in syncs) and \
                        not any(done):
                    self.check_flags_vs_data(syncs[0][1])
                    self.counters["sync_points"] = \
                        self.counters.get("sync_points", 0) + 1
                    blocked = [None] * self.mesh.R
                    continue
                logs = [rr.oplog for rr in runs]
                raise Violation("ranks-diverge-on-halo-exchanges",
                                {"oplogs": [l[:8] for l in logs],
                                 "blocked": [str(b) for b in blocked]})
            r = self.chooser(runnable)
            self.trace.append(r)
            steps += 1
            if steps > 100000:
                raise Discard("scheduler step cap")
            try:
                blocked[r] = next(gens[r])
            except StopIteration:
                done[r] = True
                blocked[r] = None
        logs = [rr.oplog for rr in runs]
        if any(l != logs[0] for l in logs[1:]):
            raise Violation("ranks-diverge-on-halo-exchanges",
                            {"oplogs": [l[:8] for l in logs]})
        for f in self.fields.values():
            for r in range(self.mesh.R):
                if f.pending[r] is not None:
                    raise Violation("async-exchange-never-finished",
                                    {"field": f.name, "rank": r})
        return runs


def reference_run(scn, mesh, init, ext, scalar_a=3):
    """Global single-copy execution of the invoke (the oracle)."""
    from simkit import lfricgen
    spaces = {"cont": Space(Mesh(mesh.N, 1, 1), "cont"),
              "disc": Space(Mesh(mesh.N, 1, 1), "disc")}
    vals = {f: dict(enumerate(init["global"][f])) for f in scn["fields"]}
    fsp = {f: spaces["cont" if lfricgen.is_cont(sp) else "disc"]
           for f, sp in scn["fields"].items()}
    kmap = {k["name"]: k for k in scn["kernels"]}
    for call in scn["calls"]:
        if "kern" in call:
            kern = kmap[call["kern"]]
            bound = dict(kern)
            bound["args"] = []
            for a in kern["args"]:
                b = dict(a)
                if a["stencil"]:
                    e = a["stencil"]["extent"]
                    b["_extent"] = ext if e == "ext" else int(e)
                bound["args"].append(b)
            snapv = {f: dict(v) for f, v in vals.items()}
            for g in range(mesh.N):
                kernel_apply(bound, fsp, g,
                             lambda f, d: vals[f][d],
                             lambda f, d, v, how="write":
                             vals[f].__setitem__(d, v),
                             lambda f, d: snapv[f][d], mesh.N)
        else:
            apply_builtin_global(call, vals, fsp, scalar_a)
    return vals


def apply_builtin_global(call, vals, fsp, a):
    name = call["builtin"]
    fl = call["fields"]
    s = call.get("scalar", "0.0_r_def")
    sval = a if s == "a" else int(float(s.split("_")[0]) * 16)
    ndof = len(vals[fl[0]])
    for d in range(ndof):
        v = [vals[f][d] for f in fl]
        if name == "setval_c":
            out = sval
        elif name == "setval_x":
            out = v[1]
        elif name == "x_plus_y":
            out = v[1] + v[2]
        elif name == "inc_x_plus_y":
            out = v[0] + v[1]
        elif name == "x_minus_y":
            out = v[1] - v[2]
        elif name == "a_times_x":
            out = sval * v[1]
        elif name == "inc_a_times_x":
            out = sval * v[0]
        elif name == "x_times_y":
            out = v[1] * v[2]
        elif name == "inc_ax_plus_y":
            out = sval * v[0] + v[1]
        else:
            raise Discard("built-in " + name)
        vals[fl[0]][d] = int(out) & M61
