"""Seeded generator of LFRic workloads for E5 (C22, C23): kernel metadata
(Fortran type declarations with empty subroutines), an algorithm file with
one invoke of kernels and built-ins sharing fields, and the set-up that
takes them through the real PSyclone LFRic pipeline.
"""
import os
import shutil
import tempfile

from simkit.core import pick, weighted

CONT = ["w0", "w1", "w2"]
DISC = ["w3", "wtheta", "w2v"]
BUILTINS = {
    # name: (n field args, scalar positions, writes first arg?, reads)
    "setval_c": {"fields": 1, "scalars": 1, "form": "{f0}(df) = {s0}"},
    "setval_x": {"fields": 2, "scalars": 0},
    "x_plus_y": {"fields": 3, "scalars": 0},
    "inc_x_plus_y": {"fields": 2, "scalars": 0},
    "x_minus_y": {"fields": 3, "scalars": 0},
    "a_times_x": {"fields": 2, "scalars": 1, "scalar_first": True},
    "inc_a_times_x": {"fields": 1, "scalars": 1, "scalar_first": True},
    "x_times_y": {"fields": 3, "scalars": 0},
    "inc_ax_plus_y": {"fields": 2, "scalars": 1, "scalar_first": True},
}


def is_cont(space):
    return space in CONT


def gen_scenario(rng, features):
    """features: set of enabled generator features (DESIGN 4.10: switched
    on one at a time): 'stencil', 'builtins', 'readinc', 'cont_write',
    'anyspace'."""
    nfields = rng.randint(2, 5)
    fields = {}
    for i in range(nfields):
        fields[f"f{i + 1}"] = pick(rng, CONT + ["w3", "w3", "wtheta"] +
                                   CONT[:2])
    vectors = {}
    if "vector" in features and rng.random() < 0.35:
        # one field becomes a field vector: in the scenario model its
        # components are fields of their own (f2_1, f2_2, ...) that kernels
        # always receive together; in the Fortran it is declared f2(k)
        base = pick(rng, sorted(fields))
        size = pick(rng, [2, 3])
        space = fields.pop(base)
        for i in range(size):
            fields[f"{base}_{i + 1}"] = space
        vectors[base] = size
    comp_of = {f"{b}_{i + 1}": b for b, k in vectors.items()
               for i in range(k)}
    # units a kernel argument can be: plain fields and whole vectors
    units = sorted(set(comp_of.get(f, f) for f in fields))
    plain = [f for f in sorted(fields) if f not in comp_of]
    names = sorted(fields)
    kernels = []
    calls = []
    ncalls = rng.randint(1, 4)
    for ci in range(ncalls):
        if "builtins" in features and rng.random() < 0.3:
            bname = pick(rng, sorted(BUILTINS))
            info = BUILTINS[bname]
            # all field args of a built-in must be on the same space
            space = pick(rng, sorted(set(fields[f] for f in plain) or
                                     set(fields.values())))
            cands = [f for f in plain if fields[f] == space]
            if not cands:
                continue
            if len(cands) < info["fields"]:
                # allow the same field several times only where legal
                if info["fields"] > 1 and len(cands) < 2:
                    bname, info = "setval_c", BUILTINS["setval_c"]
                args = [pick(rng, cands) for _ in range(info["fields"])]
                if len(set(args)) < len(args) and bname != "setval_c":
                    bname, info = "setval_c", BUILTINS["setval_c"]
                    args = args[:1]
            else:
                args = rng.sample(cands, info["fields"])
            calls.append({"builtin": bname, "fields": args,
                          "scalar": pick(rng, ["0.0_r_def", "1.0_r_def",
                                               "a"])})
            continue
        kname = f"k{len(kernels) + 1}"
        nargs = rng.randint(1, min(4, len(units)))
        chosen = rng.sample(units, nargs)
        args = []
        updated = False
        order = list(chosen)
        for pos, unit in enumerate(order):
            fname = unit if unit in fields else unit + "_1"
            space = fields[fname]
            want_update = (pos == 0) or rng.random() < 0.25
            if is_cont(space):
                if want_update:
                    acc = weighted(rng, [
                        (6, "gh_inc"),
                        (2 if "readinc" in features else 0, "gh_readinc"),
                        (2 if "cont_write" in features else 0, "gh_write")])
                else:
                    acc = "gh_read"
            else:
                if want_update:
                    acc = pick(rng, ["gh_write", "gh_write", "gh_readwrite"])
                else:
                    acc = "gh_read"
            updated = updated or acc != "gh_read"
            aspace = space
            if "anyspace" in features and rng.random() < 0.2:
                # A discontinuous field that is *written* is never passed
                # to an any_space argument: PSyclone must assume any_space
                # is continuous and the GH_WRITE contract for that case
                # ("same value whichever cell") is not documented for a
                # field that is in fact discontinuous (DESIGN corrections).
                if is_cont(space) or (acc == "gh_read" and
                                      rng.random() < 0.5):
                    aspace = f"any_space_{pos + 1}"
                else:
                    aspace = f"any_discontinuous_space_{pos + 1}"
            stencil = None
            if acc == "gh_read" and "stencil" in features and \
                    rng.random() < 0.35:
                stencil = {"type": pick(rng, ["cross", "region", "x1d"]),
                           "extent": pick(rng, ["ext", 1, 2, "ext"])}
            if unit in vectors:
                for i in range(vectors[unit]):
                    args.append({"field": f"{unit}_{i + 1}", "access": acc,
                                 "space": aspace, "stencil": stencil,
                                 "vec": [unit, i + 1, vectors[unit]]})
            else:
                args.append({"field": fname, "access": acc, "space": aspace,
                             "stencil": stencil})
        has_scalar = rng.random() < 0.3
        kern = {"name": kname, "args": args, "scalar": has_scalar}
        if "operator" in features and rng.random() < 0.3:
            # an LMA operator argument (C23 only: the simulator does not
            # execute operators); a written operator becomes the kernel's
            # iteration-space argument
            sp = pick(rng, ["w3", "w3", "w0", "w2"])
            kern["ops"] = [{"name": f"op{len(kernels) + 1}",
                            "access": pick(rng, ["gh_write", "gh_write",
                                                 "gh_readwrite", "gh_read"]),
                            "to": sp, "from": pick(rng, [sp, "w3"])}]
        kernels.append(kern)
        calls.append({"kern": kname})
    if "multireader" in features and rng.random() < 0.25:
        # one writer of a continuous field followed by several readers with
        # different halo needs (plain read by a kernel that only writes a
        # discontinuous field; variable- or literal-extent stencil): they
        # all hang off one halo exchange
        cont = [f for f in plain if is_cont(fields[f])]
        disc = [f for f in plain if not is_cont(fields[f])]
        if cont and disc:
            fld, out = pick(rng, cont), pick(rng, disc)

            def newk(args):
                name = f"k{len(kernels) + 1}"
                kernels.append({"name": name, "args": args,
                                "scalar": False})
                return {"kern": name}
            writer = newk([{"field": fld, "access": pick(rng, [
                "gh_inc", "gh_inc", "gh_readinc"
                if "readinc" in features else "gh_inc"]),
                "space": fields[fld], "stencil": None}])
            readers = []
            for kind in rng.sample(["plain", "var", "lit", "plain"],
                                   rng.randint(2, 3)):
                st = None
                if kind == "var":
                    st = {"type": pick(rng, ["cross", "region"]),
                          "extent": "ext"}
                elif kind == "lit":
                    st = {"type": "cross", "extent": pick(rng, [1, 2])}
                readers.append(newk([
                    {"field": out, "access": pick(rng, ["gh_write",
                                                        "gh_readwrite"]),
                     "space": fields[out], "stencil": None},
                    {"field": fld, "access": "gh_read",
                     "space": fields[fld], "stencil": st}]))
            calls += [writer] + readers
    scn = {"fields": fields, "kernels": kernels, "calls": calls,
           "annexed": rng.random() < 0.5}
    if vectors:
        scn["vectors"] = vectors
    return scn


def kernel_text(kern):
    lines = []
    nmeta = len(kern["args"]) + (1 if kern["scalar"] else 0)
    entries = []
    if kern["scalar"]:
        entries.append("arg_type(gh_scalar, gh_real, gh_read)")
    for a in kern["args"]:
        ftype = "gh_field"
        if a.get("vec"):
            if a["vec"][1] != 1:
                continue            # components 2..k ride with the first
            ftype = f"gh_field*{a['vec'][2]}"
        ent = f"arg_type({ftype}, gh_real, {a['access']}, {a['space']}"
        if a["stencil"]:
            ent += f", stencil({a['stencil']['type']})"
        ent += ")"
        entries.append(ent)
    for op in kern.get("ops", []):
        entries.append(f"arg_type(gh_operator, gh_real, {op['access']}, "
                       f"{op['to']}, {op['from']})")
        nmeta += 1
    name = kern["name"]
    lines += [f"module {name}_mod", "  use argument_mod",
              "  use fs_continuity_mod", "  use kernel_mod",
              "  use constants_mod", "  implicit none",
              f"  type, extends(kernel_type) :: {name}_type",
              f"     type(arg_type), dimension({len(entries)}) :: meta_args = (/ &"]
    for i, ent in enumerate(entries):
        lines.append("          " + ent + (", &" if i + 1 < len(entries)
                                           else " /)"))
    lines += ["     integer :: operates_on = cell_column", "   contains",
              f"     procedure, nopass :: code => {name}_code",
              f"  end type {name}_type", "contains",
              f"  subroutine {name}_code()",
              f"  end subroutine {name}_code", f"end module {name}_mod", ""]
    return "\n".join(lines)


def _field_decls(scn, names_only=False):
    vectors = scn.get("vectors", {})
    comps = {f"{b}_{i + 1}" for b, k in vectors.items() for i in range(k)}
    out = [f for f in sorted(scn["fields"]) if f not in comps]
    for base in sorted(vectors):
        out.append(base if names_only else f"{base}({vectors[base]})")
    return sorted(out)


def alg_text(scn):
    fields = _field_decls(scn, names_only=True)
    uses = "\n".join(f"  use {k['name']}_mod, only: {k['name']}_type"
                     for k in scn["kernels"])
    calls = []
    kmap = {k["name"]: k for k in scn["kernels"]}
    for call in scn["calls"]:
        if "builtin" in call:
            info = BUILTINS[call["builtin"]]
            args = list(call["fields"])
            if info["scalars"]:
                # setval_c(X, c); a_times_X(Y, a, X); inc_a_times_X(a, X);
                # inc_aX_plus_Y(a, X, Y)
                if call["builtin"] == "a_times_x":
                    args = [args[0], call["scalar"], args[1]]
                elif info.get("scalar_first"):
                    args = [call["scalar"]] + args
                else:
                    args = args + [call["scalar"]]
            calls.append(f"{call['builtin']}({', '.join(args)})")
        else:
            kern = kmap[call["kern"]]
            args = []
            if kern["scalar"]:
                args.append("a")
            for a in kern["args"]:
                if a.get("vec"):
                    if a["vec"][1] != 1:
                        continue
                    args.append(a["vec"][0])
                else:
                    args.append(a["field"])
                if a["stencil"]:
                    args.append(str(a["stencil"]["extent"]))
            for op in kern.get("ops", []):
                args.append(op["name"])
            calls.append(f"{kern['name']}_type({', '.join(args)})")
    body = ", &\n                 ".join(calls)
    opnames = sorted({op["name"] for k in scn["kernels"]
                      for op in k.get("ops", [])})
    opdecl = ""
    if opnames:
        opdecl = ("    type(operator_type), intent(inout) :: " +
                  ", ".join(opnames) + "\n")
        fields = fields + opnames
        uses = "  use operator_mod, only: operator_type\n" + uses
    return f"""module alg_mod
  use field_mod, only: field_type
  use constants_mod, only: r_def, i_def
{uses}
  implicit none
contains
  subroutine alg({', '.join(fields)})
    type(field_type), intent(inout) :: {', '.join(_field_decls(scn))}
{opdecl}    real(r_def) :: a
    integer(i_def) :: ext
    call invoke( {body}, &
                 name="inv1" )
  end subroutine alg
end module alg_mod
"""


def scratch_root():
    return "/dev/shm" if os.path.isdir("/dev/shm") else tempfile.gettempdir()


def build_psy(scn, dist_mem=True):
    """Real PSyclone: write the files, parse, create the PSy object.
    Returns (psy, tmpdir) - caller removes tmpdir."""
    from psyclone.configuration import Config
    from psyclone.parse.algorithm import parse
    from psyclone.psyGen import PSyFactory
    tmp = tempfile.mkdtemp(prefix="lfgen", dir=scratch_root())
    try:
        for kern in scn["kernels"]:
            with open(os.path.join(tmp, kern["name"] + "_mod.f90"), "w") as f:
                f.write(kernel_text(kern))
        with open(os.path.join(tmp, "alg.f90"), "w") as f:
            f.write(alg_text(scn))
        Config._instance = None
        cfg = Config.get()
        cfg.api = "lfric"
        cfg.api_conf("lfric")._compute_annexed_dofs = bool(scn["annexed"])
        _, info = parse(os.path.join(tmp, "alg.f90"), api="lfric",
                        kernel_paths=[tmp])
        psy = PSyFactory("lfric", distributed_memory=dist_mem).create(info)
        return psy
    finally:
        shutil.rmtree(tmp, ignore_errors=True)
