"""E3: a small PSyIR interpreter and an OpenMP execution simulator.

The interpreter plays the Fortran run time for the language subset of
DESIGN Appendix A.  The simulator plays the OpenMP run time: a team of T
threads, each a Python generator, interleaved by a chooser that the caller
owns (seeded when exploring, a recorded list when replaying).  Private
storage is allocated POISONED: OpenMP leaves it undefined, and any use of
an undefined value that reaches shared memory or a control decision is
recorded.
"""
import re


class _Poison:
    def __repr__(self):
        return "POISON"


POISON = _Poison()


class Unsupported(Exception):
    """Program outside the interpreted subset: discarded, never a verdict."""


class RuntimeFault(Exception):
    """Out-of-bounds, division by zero, poison in control, step cap."""

    def __init__(self, kind, detail=None):
        super().__init__(kind)
        self.kind = kind
        self.detail = detail


class _Return(Exception):
    pass


class Arr:
    __slots__ = ("lb", "ub", "data", "strides")

    def __init__(self, lb, ub, data):
        self.lb, self.ub, self.data = list(lb), list(ub), data
        self.strides = []
        s = 1
        for lo, hi in zip(self.lb, self.ub):
            self.strides.append(s)
            s *= (hi - lo + 1)

    def flat(self, idx):
        if len(idx) != len(self.lb):
            raise RuntimeFault("rank-mismatch")
        off = 0
        for i, lo, hi, st in zip(idx, self.lb, self.ub, self.strides):
            if i is POISON:
                raise RuntimeFault("poison-subscript")
            if not isinstance(i, int) or isinstance(i, bool):
                raise RuntimeFault("non-integer-subscript", repr(i))
            if i < lo or i > hi:
                raise RuntimeFault("out-of-bounds", (i, lo, hi))
            off += (i - lo) * st
        return off

    def copy(self):
        return Arr(self.lb, self.ub, list(self.data))


def make_store(inputs):
    store = {}
    for name, val in inputs.items():
        if isinstance(val, dict):
            store[name] = Arr(val["lb"], val["ub"], list(val["data"]))
        else:
            store[name] = val
    return store


def copy_store(store):
    return {k: (v.copy() if isinstance(v, Arr) else v)
            for k, v in store.items()}


def store_digestable(store):
    out = {}
    for k in sorted(store):
        v = store[k]
        if isinstance(v, Arr):
            out[k] = [repr(x) for x in v.data]
        else:
            out[k] = repr(v)
    return out


class Env:
    """Variable resolution for one executing thread."""

    def __init__(self, shared, priv=None, tid=None):
        self.shared = shared
        self.priv = priv if priv is not None else {}
        self.tid = tid
        self.rec = None          # optional access recorder(kind, loc)
        self.alias = {}          # formal array name -> actual (in a callee)
        self.in_parallel = False
        self.ws_count = 0
        self.barrier_count = 0
        self.poison_events = []

    def read(self, name):
        if name in self.priv:
            return self.priv[name]
        if name not in self.shared:
            raise Unsupported("unknown variable " + name)
        val = self.shared[name]
        if isinstance(val, Arr):
            raise Unsupported("whole-array reference " + name)
        if self.rec:
            self.rec("R", (name,))
        return val

    def write(self, name, val):
        if name in self.priv:
            self.priv[name] = val
            return
        if name not in self.shared:
            raise Unsupported("unknown variable " + name)
        if self.rec:
            self.rec("W", (name,))
        if val is POISON:
            self.poison_events.append(("poison-stored-to-shared", name))
        self.shared[name] = val

    def aread(self, name, idx):
        name = self.alias.get(name, name)
        arr = self.shared.get(name)
        if not isinstance(arr, Arr):
            raise Unsupported("not an array " + name)
        off = arr.flat(idx)
        if self.rec:
            self.rec("R", (name, off))
        return arr.data[off]

    def awrite(self, name, idx, val):
        name = self.alias.get(name, name)
        arr = self.shared.get(name)
        if not isinstance(arr, Arr):
            raise Unsupported("not an array " + name)
        off = arr.flat(idx)
        if self.rec:
            self.rec("W", (name, off))
        if val is POISON:
            self.poison_events.append(("poison-stored-to-shared",
                                       f"{name}[{off}]"))
        arr.data[off] = val


# --------------------------------------------------------------------------
# expressions
# --------------------------------------------------------------------------
def _literal(node):
    intr = node.datatype.intrinsic.name
    txt = node.value
    if intr == "INTEGER":
        return int(txt)
    if intr == "REAL":
        txt = txt.lower().split("_")[0].replace("d", "e")
        return float(txt)
    if intr == "BOOLEAN":
        return txt.lower() == "true"
    raise Unsupported("literal " + intr)


def _fdiv(a, b):
    if b == 0:
        raise RuntimeFault("division-by-zero")
    if isinstance(a, int) and isinstance(b, int):
        q = abs(a) // abs(b)
        return q if (a >= 0) == (b >= 0) else -q
    return a / b


def _fmod(a, b):
    if b == 0:
        raise RuntimeFault("division-by-zero")
    if isinstance(a, int) and isinstance(b, int):
        return a - _fdiv(a, b) * b
    import math
    return math.fmod(a, b)


def ev(node, env):
    from psyclone.psyir import nodes as N
    tname = type(node).__name__
    if tname == "Literal":
        return _literal(node)
    if tname == "Reference":
        return env.read(node.symbol.name.lower())
    if tname == "ArrayReference":
        idx = []
        for ch in node.children:
            if type(ch).__name__ == "Range":
                raise Unsupported("array section")
            idx.append(ev(ch, env))
        return env.aread(node.symbol.name.lower(), idx)
    if tname == "BinaryOperation":
        op = node.operator.name
        a = ev(node.children[0], env)
        b = ev(node.children[1], env)
        if a is POISON or b is POISON:
            return POISON
        if op == "ADD":
            return a + b
        if op == "SUB":
            return a - b
        if op == "MUL":
            return a * b
        if op == "DIV":
            return _fdiv(a, b)
        if op == "REM":
            return _fmod(a, b)
        if op == "POW":
            if not isinstance(b, int):
                raise Unsupported("non-integer power")
            if b < 0 and isinstance(a, int):
                return 0 if abs(a) > 1 else (a ** b if a else
                                             _fdiv(1, 0))
            return a ** b
        if op == "EQ":
            return a == b
        if op == "NE":
            return a != b
        if op == "GT":
            return a > b
        if op == "LT":
            return a < b
        if op == "GE":
            return a >= b
        if op == "LE":
            return a <= b
        if op == "AND":
            return bool(a) and bool(b)
        if op == "OR":
            return bool(a) or bool(b)
        if op == "EQV":
            return bool(a) == bool(b)
        if op == "NEQV":
            return bool(a) != bool(b)
        raise Unsupported("operator " + op)
    if tname == "UnaryOperation":
        op = node.operator.name
        a = ev(node.children[0], env)
        if a is POISON:
            return POISON
        if op == "MINUS":
            return -a
        if op == "PLUS":
            return a
        if op == "NOT":
            return not a
        raise Unsupported("operator " + op)
    if tname == "IntrinsicCall":
        name = node.intrinsic.name
        args = [ev(a, env) for a in node.arguments]
        if any(a is POISON for a in args):
            return POISON
        if name == "MOD":
            return _fmod(args[0], args[1])
        if name == "ABS":
            return abs(args[0])
        if name == "MIN":
            return min(args)
        if name == "MAX":
            return max(args)
        if name == "SIGN":
            return abs(args[0]) if args[1] >= 0 else -abs(args[0])
        if name == "INT":
            return int(args[0])
        if name == "REAL":
            return float(args[0])
        if name == "NINT":
            import math
            return int(math.floor(abs(args[0]) + 0.5)) * \
                (1 if args[0] >= 0 else -1)
        if name == "MERGE":
            return args[0] if args[2] else args[1]
        raise Unsupported("intrinsic " + name)
    raise Unsupported("expression node " + tname)


# --------------------------------------------------------------------------
# statements (generators: they yield at the pre-emption points the context
# asks for; a serial run simply drains them)
# --------------------------------------------------------------------------
class Ctx:
    """Execution context shared by all threads of one execution."""

    def __init__(self, gran="none", step_cap=200000, omp=None):
        self.gran = gran        # none | iter | stmt | access
        self.steps = 0
        self.step_cap = step_cap
        self.omp = omp          # OmpSim or None
        self.iter_hook = None   # called (loop node, env, value) per iteration
        self.loop_hook = None   # called (loop node, "enter"|"exit")
        self.order_hook = None  # (loop node, count) -> iteration order
        self.routines = None    # {name: Routine node} enables Call statements
        self.ext = None         # {node class name: generator fn(node, env,
        #                          ctx)} for statements owned by another
        #                          simulator (OpenACC device store, ...)

    def tick(self):
        self.steps += 1
        if self.steps > self.step_cap:
            raise RuntimeFault("step-cap")


def trip_count(start, stop, step):
    if step == 0:
        raise RuntimeFault("zero-step")
    return max(0, _fdiv(stop - start + step, step))


def exec_block(stmts, env, ctx):
    for st in stmts:
        yield from exec_stmt(st, env, ctx)


def _control(val, what):
    if val is POISON:
        raise RuntimeFault("poison-in-control", what)
    return val


def exec_stmt(node, env, ctx):
    tname = type(node).__name__
    ctx.tick()
    if tname == "Assignment":
        if ctx.gran in ("stmt", "access") and env.in_parallel:
            yield ("stmt",)
        val = ev(node.rhs, env)
        lhs = node.lhs
        ltype = type(lhs).__name__
        if ltype == "ArrayReference":
            idx = [ev(c, env) for c in lhs.children]
            if ctx.gran == "access" and env.in_parallel:
                yield ("store",)
            env.awrite(lhs.symbol.name.lower(), idx, val)
        elif ltype == "Reference":
            if ctx.gran == "access" and env.in_parallel:
                yield ("store",)
            name = lhs.symbol.name.lower()
            # Fortran converts on assignment
            cur = env.priv.get(name, env.shared.get(name))
            if isinstance(cur, int) and not isinstance(cur, bool) and \
                    isinstance(val, float):
                val = int(val)
            elif isinstance(cur, float) and isinstance(val, int) and \
                    not isinstance(val, bool):
                val = float(val)
            env.write(name, val)
        else:
            raise Unsupported("assignment to " + ltype)
        return
    if tname == "Loop":
        start = _control(ev(node.start_expr, env), "loop-start")
        stop = _control(ev(node.stop_expr, env), "loop-stop")
        step = _control(ev(node.step_expr, env), "loop-step")
        var = node.variable.name.lower()
        if env.in_parallel and var not in env.priv:
            # OpenMP: loop iteration variables of sequential loops inside a
            # parallel construct are private (predetermined)
            env.priv[var] = POISON
        count = trip_count(start, stop, step)
        order = range(count)
        if ctx.order_hook is not None:
            order = ctx.order_hook(node, count)
        if ctx.loop_hook is not None:
            ctx.loop_hook(node, "enter")
        for it in order:
            if ctx.iter_hook is not None:
                ctx.iter_hook(node, env, it)
            env.write(var, start + it * step)
            yield from exec_block(node.loop_body.children, env, ctx)
        if ctx.loop_hook is not None:
            ctx.loop_hook(node, "exit")
        env.write(var, start + count * step)
        return
    if tname == "IfBlock":
        cond = _control(ev(node.condition, env), "if-condition")
        if cond:
            yield from exec_block(node.if_body.children, env, ctx)
        elif node.else_body is not None:
            yield from exec_block(node.else_body.children, env, ctx)
        return
    if tname == "WhileLoop":
        while _control(ev(node.condition, env), "while-condition"):
            ctx.tick()
            yield from exec_block(node.loop_body.children, env, ctx)
        return
    if tname == "Return":
        raise _Return()
    if tname in ("OMPParallelDirective", "OMPParallelDoDirective",
                 "OMPTeamsDistributeParallelDoDirective"):
        if ctx.omp is None:
            raise Unsupported("directive without simulator")
        if env.in_parallel:
            raise Unsupported("nested parallel region")
        ctx.omp.run_parallel(node, env, ctx)
        return
    if tname in ("OMPDoDirective", "OMPLoopDirective"):
        if ctx.omp is None or not env.in_parallel:
            raise Unsupported("orphaned worksharing directive")
        yield from ctx.omp.worksharing(node, env, ctx)
        return
    if tname == "OMPSingleDirective":
        yield from ctx.omp.single(node, env, ctx)
        return
    if tname == "OMPMasterDirective":
        if env.tid == 0:
            yield from exec_block(node.dir_body.children, env, ctx)
        return
    if tname == "OMPBarrierDirective":
        yield from ctx.omp.barrier(env)
        return
    if ctx.ext is not None and tname in ctx.ext:
        yield from ctx.ext[tname](node, env, ctx)
        return
    if tname == "Call" and ctx.routines is not None:
        yield from exec_call(node, env, ctx)
        return
    raise Unsupported("statement node " + tname)


def exec_call(node, env, ctx):
    """Call of a routine of the same file: arrays by reference (whole-array
    actuals only), scalar variables by reference (copy-in/copy-out, exact
    for the callees generated here, which do not alias), other actuals by
    value; callee locals are undefined on entry."""
    import copy
    callee = ctx.routines.get(node.routine.name.lower())
    if callee is None:
        raise Unsupported("call to unknown routine " + node.routine.name)
    formals = callee.symbol_table.argument_list
    actuals = list(node.arguments)
    if len(formals) != len(actuals):
        raise Unsupported("argument count")
    sub = copy.copy(env)
    sub.priv = {}
    sub.alias = {}
    back = []
    for formal, actual in zip(formals, actuals):
        fname = formal.name.lower()
        aname = actual.symbol.name.lower() if type(actual).__name__ == \
            "Reference" else None
        if formal.is_array:
            if aname is None:
                raise Unsupported("array actual that is not a whole array")
            sub.alias[fname] = env.alias.get(aname, aname)
        else:
            sub.priv[fname] = ev(actual, env)
            if aname is not None:
                back.append((fname, aname))
    for sym in callee.symbol_table.datasymbols:
        name = sym.name.lower()
        if name not in sub.priv and name not in sub.alias:
            if sym.is_array:
                raise Unsupported("local array in callee")
            sub.priv[name] = POISON
    try:
        yield from exec_block(callee.children, sub, ctx)
    except _Return:
        pass
    for fname, aname in back:
        if sub.priv[fname] is not POISON or True:
            env.write(aname, sub.priv[fname])


def run_serial(stmts, store, ctx=None, rec=None):
    """Execute statements to completion on `store` (mutated)."""
    ctx = ctx or Ctx()
    env = Env(store)
    env.rec = rec
    try:
        for _ in exec_block(stmts, env, ctx):
            pass
    except _Return:
        pass
    return env


# --------------------------------------------------------------------------
# OpenMP
# --------------------------------------------------------------------------
_CL_PRIV = re.compile(r"(?<![a-z])private\(([^)]*)\)")
_CL_FPRIV = re.compile(r"firstprivate\(([^)]*)\)")
_CL_SCHED = re.compile(r"schedule\(([^)]*)\)")
_CL_COLL = re.compile(r"collapse\((\d+)\)")


def parse_clauses(line):
    low = line.lower()
    out = {"private": [], "firstprivate": [], "schedule": None,
           "collapse": 1, "nowait": "nowait" in low,
           "reduction": "reduction(" in low, "text": line.strip()}
    m = _CL_FPRIV.search(low)
    if m:
        out["firstprivate"] = [x.strip() for x in m.group(1).split(",")
                               if x.strip()]
    m = _CL_PRIV.search(low)
    if m:
        out["private"] = [x.strip() for x in m.group(1).split(",")
                          if x.strip()]
    m = _CL_SCHED.search(low)
    if m:
        parts = [x.strip() for x in m.group(1).split(",")]
        out["schedule"] = (parts[0], int(parts[1]) if len(parts) > 1 and
                           parts[1].isdigit() else None)
    m = _CL_COLL.search(low)
    if m:
        out["collapse"] = int(m.group(1))
    return out


def directive_clauses(lowered_root, text):
    """Map every directive node of the lowered tree to the clauses on the
    directive line the writer produced for it (what a compiler sees)."""
    from psyclone.psyir.nodes import Directive
    nodes = lowered_root.walk(Directive)
    lines = [ln for ln in text.splitlines()
             if ln.strip().lower().startswith("!$omp") and
             not ln.strip().lower().startswith("!$omp end")]
    if len(nodes) != len(lines):
        raise Unsupported(f"{len(nodes)} directive nodes vs {len(lines)} "
                          f"directive lines")
    return {id(n): parse_clauses(ln) for n, ln in zip(nodes, lines)}


class OmpSim:
    def __init__(self, nthreads, clauses, chooser, default_sched=("static",
                                                                  None)):
        self.T = nthreads
        self.clauses = clauses
        self.chooser = chooser      # f(sim, runnable tids) -> tid
        self.default_sched = default_sched
        self.trace = []             # chosen tids
        self.ws = {}
        self.arrived = {}
        self.single_taken = {}
        self.threads_ran_iters = set()
        self.poison_events = []
        self.switches = 0
        self.regions = 0

    # -- region --
    def run_parallel(self, pnode, outer_env, ctx):
        self.regions += 1
        cl = self.clauses[id(pnode)]
        tname = type(pnode).__name__
        shared = outer_env.shared
        envs = []
        for tid in range(self.T):
            priv = {}
            for name in cl["private"]:
                priv[name] = POISON
            for name in cl["firstprivate"]:
                val = shared.get(name)
                if isinstance(val, Arr):
                    raise Unsupported("firstprivate array")
                priv[name] = val
            env = Env(shared, priv, tid)
            env.in_parallel = True
            env.rec = outer_env.rec
            envs.append(env)
        if tname == "OMPParallelDirective":
            gens = [self._thread(exec_block(pnode.dir_body.children, e, ctx))
                    for e in envs]
        else:   # combined parallel do
            gens = [self._thread(self.worksharing(pnode, e, ctx))
                    for e in envs]
        last = [("start",)] * self.T
        done = [False] * self.T
        prev = None
        while not all(done):
            runnable = []
            for tid in range(self.T):
                if done[tid]:
                    continue
                lt = last[tid]
                if lt[0] == "blocked" and self.arrived.get(
                        (lt[1]), 0) < self.T:
                    continue
                runnable.append(tid)
            if not runnable:
                raise RuntimeFault("deadlock-in-parallel-region")
            tid = self.chooser(self, runnable, last)
            self.trace.append(tid)
            if prev is not None and prev != tid:
                self.switches += 1
            prev = tid
            ctx.tick()
            try:
                last[tid] = next(gens[tid])
            except StopIteration:
                done[tid] = True
        for env in envs:
            self.poison_events += env.poison_events

    @staticmethod
    def _thread(gen):
        try:
            yield from gen
        except _Return:
            return

    # -- worksharing loop --
    def _iteration_space(self, loop, depth, env):
        """List of tuples of loop-variable values in serial order for the
        `depth` outermost loops of the nest rooted at `loop`."""
        loops = [loop]
        cur = loop
        for _ in range(depth - 1):
            kids = cur.loop_body.children
            if len(kids) != 1 or type(kids[0]).__name__ != "Loop":
                raise Unsupported("collapse over imperfect nest")
            cur = kids[0]
            loops.append(cur)
        scratch = Env(env.shared, dict(env.priv), env.tid)
        out = []

        def rec(level, prefix):
            lp = loops[level]
            start = _control(ev(lp.start_expr, scratch), "ws-start")
            stop = _control(ev(lp.stop_expr, scratch), "ws-stop")
            step = _control(ev(lp.step_expr, scratch), "ws-step")
            var = lp.variable.name.lower()
            for it in range(trip_count(start, stop, step)):
                val = start + it * step
                scratch.priv[var] = val
                if level + 1 < len(loops):
                    rec(level + 1, prefix + [val])
                else:
                    out.append(tuple(prefix + [val]))
        rec(0, [])
        return loops, out

    def worksharing(self, dnode, env, ctx):
        cl = self.clauses[id(dnode)]
        if cl["reduction"]:
            raise Unsupported("reduction clause")
        wsid = env.ws_count
        env.ws_count += 1
        body = dnode.dir_body.children
        if len(body) != 1 or type(body[0]).__name__ != "Loop":
            raise Unsupported("worksharing construct without a single loop")
        loops, iters = self._iteration_space(body[0], cl["collapse"], env)
        names = [lp.variable.name.lower() for lp in loops]
        for name in names:
            env.priv.setdefault(name, POISON)   # predetermined private
        inner = loops[-1].loop_body.children
        kind, chunk = cl["schedule"] or self.default_sched
        if kind in ("auto", "runtime"):
            kind, chunk = self.default_sched
        n = len(iters)
        state = self.ws.setdefault(wsid, {"next": 0})

        def run_chunk(lo, hi):
            for k in range(lo, hi):
                if ctx.gran != "none":
                    yield ("iter",)
                for name, val in zip(names, iters[k]):
                    env.priv[name] = val
                self.threads_ran_iters.add(env.tid)
                if ctx.iter_hook is not None:
                    ctx.iter_hook(loops[0], env, iters[k])
                yield from exec_block(inner, env, ctx)

        if kind == "static":
            if chunk is None:
                size = -(-n // self.T) if n else 0
                lo = env.tid * size
                yield from run_chunk(min(lo, n), min(lo + size, n))
            else:
                lo = env.tid * chunk
                while lo < n:
                    yield from run_chunk(lo, min(lo + chunk, n))
                    lo += self.T * chunk
        else:       # dynamic / guided: first come, first served
            while True:
                yield ("grab",)
                lo = state["next"]
                if lo >= n:
                    break
                if kind == "guided":
                    size = max(chunk or 1, -(-(n - lo) // self.T))
                else:
                    size = chunk or 1
                state["next"] = min(n, lo + size)
                yield from run_chunk(lo, min(lo + size, n))
        if not cl["nowait"] and type(dnode).__name__ in (
                "OMPDoDirective", "OMPLoopDirective"):
            yield from self.barrier(env)

    def barrier(self, env):
        bid = ("b", env.barrier_count)
        env.barrier_count += 1
        self.arrived[bid] = self.arrived.get(bid, 0) + 1
        while self.arrived[bid] < self.T:
            yield ("blocked", bid)

    def single(self, dnode, env, ctx):
        sid = ("s", env.ws_count)
        env.ws_count += 1
        yield ("grab",)
        if sid not in self.single_taken:
            self.single_taken[sid] = env.tid
            yield from exec_block(dnode.dir_body.children, env, ctx)
        cl = self.clauses.get(id(dnode), {"nowait": False})
        if not cl["nowait"]:
            yield from self.barrier(env)
