"""Seed discipline, digests and small helpers shared by every engine.

One integer (VERIF_SEED) decides everything: the batch seed is expanded to
per-run seeds with SHA-256 (never Python's hash()), and inside a run every
consumer draws from its own labelled stream so that adding a log line or a
new fault kind cannot shift unrelated choices.
"""
import hashlib
import json
import random


def H(*parts):
    """Stable 64-bit hash of the given parts (ints/strings/tuples)."""
    txt = "\x1f".join(repr(p) for p in parts)
    return int.from_bytes(hashlib.sha256(txt.encode()).digest()[:8], "big")


def stream(run_seed, label):
    """Independent PRNG stream for one consumer inside one run."""
    return random.Random(H(run_seed, label))


def run_seed(batch_seed, prop, index):
    return H(int(batch_seed), prop, int(index))


def canon(obj):
    return json.dumps(obj, sort_keys=True, separators=(",", ":"), default=repr)


def digest(obj):
    return hashlib.sha256(canon(obj).encode()).hexdigest()[:16]


class Counters(dict):
    """dict of ints / nested dicts of ints that can be merged by addition."""

    def inc(self, key, n=1):
        self[key] = self.get(key, 0) + n

    def inc2(self, group, key, n=1):
        grp = self.setdefault(group, {})
        grp[key] = grp.get(key, 0) + n

    @staticmethod
    def merge(into, other):
        for key, val in other.items():
            if isinstance(val, dict):
                Counters.merge(into.setdefault(key, {}), val)
            else:
                into[key] = into.get(key, 0) + val
        return into


def pick(rng, seq):
    """rng.choice on a list; explicit so every call site is greppable."""
    return seq[rng.randrange(len(seq))]


def weighted(rng, pairs):
    """pairs = [(weight, value), ...]"""
    total = sum(w for w, _ in pairs)
    x = rng.random() * total
    for w, v in pairs:
        x -= w
        if x < 0:
            return v
    return pairs[-1][1]
