"""E1: baton-passing real threads + file-system shims.

Every simulated PSyclone run is a real thread executing real PSyclone code;
a thread only proceeds while it holds the baton and hands it back at every
intercepted file-system call that touches the watched directory.  Which
thread gets the baton next is the chooser's decision (PRNG-driven when
exploring, the recorded list when replaying).  Faults are applied when a
thread is resumed at a yield point.
"""
import builtins
import errno
import io
import os
import threading


class RunCrashed(BaseException):
    """Unwinds a simulated run as if its process had been killed."""


class Sim:
    def __init__(self, outdir, chooser, faults=()):
        self.outdir = os.path.realpath(outdir)
        self.chooser = chooser
        # faults: {(tid, yield_index): (kind, arg)}
        self.faults = {(f[0], f[1]): (f[2], f[3] if len(f) > 3 else None)
                       for f in faults}
        self.threads = []          # _SimThread
        self.by_ident = {}
        self.main_evt = threading.Event()
        self.events = []           # global event log
        self.schedule = []         # baton grants (thread ids)
        self.faults_fired = []
        self.fd_owner = {}         # fd -> (tid, path)
        self.path_writers = {}     # path -> set(tid) that wrote bytes
        self.path_creator = {}     # path -> tid
        self.closed_paths = {}     # path -> tid that closed after create
        self.monitor_violations = []
        self.seq = 0

    # ---- helpers used by the shims (thread side) ----
    def current(self):
        return self.by_ident.get(threading.get_ident())

    def watched(self, path):
        try:
            if isinstance(path, bytes):
                path = path.decode()
            if not isinstance(path, str):
                path = os.fspath(path)
            real = os.path.realpath(path)
        except Exception:
            return None
        if real == self.outdir or real.startswith(self.outdir + os.sep):
            return real
        return None

    def log(self, tid, call, path, result):
        self.seq += 1
        self.events.append((self.seq, tid, call,
                            None if path is None else os.path.basename(path),
                            result))

    def yield_point(self, thr, call, path):
        """Hand the baton back; returns the fault (kind, arg) to apply on
        resumption or None."""
        idx = thr.yields
        thr.yields += 1
        thr.pending = (call, None if path is None else
                       os.path.basename(path))
        thr.state = "ready"
        thr.evt.clear()
        self.main_evt.set()
        thr.evt.wait()
        thr.state = "running"
        fault = self.faults.get((thr.tid, idx))
        if fault is not None:
            self.faults_fired.append((thr.tid, idx, fault[0], call))
            if fault[0] == "crash":
                self.log(thr.tid, "CRASH-before-" + call, path, None)
                raise RunCrashed()
        return fault

    # ---- main-thread side ----
    def add_run(self, body, start_after=None):
        thr = _SimThread(self, len(self.threads), body, start_after)
        self.threads.append(thr)
        return thr

    def run(self, max_steps=2000):
        for thr in self.threads:
            thr.thread.start()
        steps = 0
        while True:
            runnable = [t for t in self.threads if t.state == "ready" and
                        (t.start_after is None or
                         all(self.threads[d].state in ("done", "crashed")
                             for d in t.start_after))]
            if not runnable:
                break
            steps += 1
            if steps > max_steps:
                raise RuntimeError("scheduler step cap exceeded")
            pick = self.chooser(self, runnable)
            self.schedule.append(pick.tid)
            self.main_evt.clear()
            pick.state = "running"
            pick.evt.set()
            self.main_evt.wait()
        for thr in self.threads:
            thr.thread.join(timeout=30)
        return steps


class _SimThread:
    def __init__(self, sim, tid, body, start_after):
        self.sim = sim
        self.tid = tid
        self.body = body
        self.start_after = start_after
        self.evt = threading.Event()
        self.state = "ready"       # ready | running | done | crashed
        self.pending = ("start", None)
        self.yields = 0
        self.result = None
        self.error = None
        self.thread = threading.Thread(target=self._main, daemon=True)

    def _main(self):
        sim = self.sim
        sim.by_ident[threading.get_ident()] = self
        self.evt.wait()            # first baton
        self.state = "running"
        try:
            self.result = self.body(self)
            self.state_after = "done"
        except RunCrashed:
            self.state_after = "crashed"
            # process-kill semantics: fds vanish, bytes written persist
            for fd, (tid, path) in list(sim.fd_owner.items()):
                if tid == self.tid:
                    try:
                        _REAL["os.close"](fd)
                    except OSError:
                        pass
                    del sim.fd_owner[fd]
        except BaseException as err:   # the run failed on its own
            self.error = err
            self.state_after = "done"
            for fd, (tid, path) in list(sim.fd_owner.items()):
                if tid == self.tid:
                    try:
                        _REAL["os.close"](fd)
                    except OSError:
                        pass
                    del sim.fd_owner[fd]
        finally:
            self.state = self.state_after
            sim.main_evt.set()


_REAL = {"os.open": os.open, "os.write": os.write, "os.close": os.close,
         "os.read": os.read, "builtins.open": builtins.open,
         "io.open": io.open, "os.rename": os.rename,
         "os.replace": os.replace, "os.link": os.link,
         "os.unlink": os.unlink, "os.remove": os.remove,
         "os.fdopen": os.fdopen}


class Shims:
    """Context manager installing the shims on os / io / builtins."""

    def __init__(self, sim):
        self.sim = sim

    def __enter__(self):
        sim = self.sim
        R = _REAL

        def s_open(path, flags, mode=0o777, *a, **kw):
            thr = sim.current()
            real = sim.watched(path) if thr else None
            if real is None:
                return R["os.open"](path, flags, mode, *a, **kw)
            fault = sim.yield_point(thr, "os.open", real)
            existed = os.path.lexists(real)
            if existed and (flags & os.O_CREAT) and not (flags & os.O_EXCL) \
                    or existed and (flags & os.O_TRUNC):
                sim.monitor_violations.append(
                    ("open-could-clobber-existing-file", thr.tid,
                     os.path.basename(real), flags))
            try:
                fd = R["os.open"](path, flags, mode, *a, **kw)
            except OSError as err:
                sim.log(thr.tid, "os.open", real,
                        errno.errorcode.get(err.errno, err.errno))
                raise
            sim.fd_owner[fd] = (thr.tid, real)
            if not existed:
                sim.path_creator[real] = thr.tid
            sim.log(thr.tid, "os.open", real, "created" if not existed
                    else "opened")
            return fd

        def s_write(fd, data):
            thr = sim.current()
            own = sim.fd_owner.get(fd) if thr else None
            if own is None:
                return R["os.write"](fd, data)
            tid, real = own
            fault = sim.yield_point(thr, "os.write", real)
            if real in sim.closed_paths:
                sim.monitor_violations.append(
                    ("write-after-close", thr.tid, os.path.basename(real)))
            if fault is not None and fault[0] == "torn":
                cut = max(0, min(len(data) - 1, int(len(data) * fault[1])))
                R["os.write"](fd, data[:cut])
                sim.path_writers.setdefault(real, set()).add(thr.tid)
                sim.log(thr.tid, "os.write-TORN", real, cut)
                raise RunCrashed()
            if fault is not None and fault[0] == "enospc":
                sim.log(thr.tid, "os.write", real, "ENOSPC")
                raise OSError(errno.ENOSPC, "No space left on device")
            if fault is not None and fault[0] == "short":
                cut = max(1, int(len(data) * fault[1]))
                n = R["os.write"](fd, data[:cut])
                sim.path_writers.setdefault(real, set()).add(thr.tid)
                sim.log(thr.tid, "os.write-SHORT", real, n)
                return n
            n = R["os.write"](fd, data)
            sim.path_writers.setdefault(real, set()).add(thr.tid)
            sim.log(thr.tid, "os.write", real, n)
            return n

        def s_close(fd):
            thr = sim.current()
            own = sim.fd_owner.get(fd) if thr else None
            if own is None:
                return R["os.close"](fd)
            tid, real = own
            sim.yield_point(thr, "os.close", real)
            del sim.fd_owner[fd]
            sim.closed_paths[real] = thr.tid
            sim.log(thr.tid, "os.close", real, None)
            return R["os.close"](fd)

        def make_open(realfn, label):
            def s_bopen(file, mode="r", *a, **kw):
                thr = sim.current()
                real = None
                if thr and isinstance(file, (str, bytes, os.PathLike)):
                    real = sim.watched(file)
                if real is None:
                    return realfn(file, mode, *a, **kw)
                sim.yield_point(thr, label + ":" + mode, real)
                existed = os.path.lexists(real)
                writing = any(c in mode for c in "wa+x")
                if existed and writing and "x" not in mode:
                    sim.monitor_violations.append(
                        ("open-could-clobber-existing-file", thr.tid,
                         os.path.basename(real), mode))
                try:
                    fobj = realfn(file, mode, *a, **kw)
                except OSError as err:
                    sim.log(thr.tid, label, real,
                            errno.errorcode.get(err.errno, err.errno))
                    raise
                if writing:
                    if not existed:
                        sim.path_creator[real] = thr.tid
                    sim.path_writers.setdefault(real, set()).add(thr.tid)
                sim.log(thr.tid, label + ":" + mode, real,
                        "existed" if existed else "new")
                return fobj
            return s_bopen

        def make_two_path(realfn, label):
            def s_two(src, dst, *a, **kw):
                thr = sim.current()
                rs = sim.watched(src) if thr else None
                rd = sim.watched(dst) if thr else None
                if rs is None and rd is None:
                    return realfn(src, dst, *a, **kw)
                sim.yield_point(thr, label, rd or rs)
                existed = rd is not None and os.path.lexists(rd)
                if existed and label in ("os.rename", "os.replace"):
                    sim.monitor_violations.append(
                        ("rename-over-existing-file", thr.tid,
                         os.path.basename(rd)))
                try:
                    out = realfn(src, dst, *a, **kw)
                except OSError as err:
                    sim.log(thr.tid, label, rd or rs,
                            errno.errorcode.get(err.errno, err.errno))
                    raise
                if rd is not None:
                    if not existed:
                        sim.path_creator[rd] = thr.tid
                    sim.path_writers.setdefault(rd, set()).add(thr.tid)
                    sim.closed_paths[rd] = thr.tid
                sim.log(thr.tid, label, rd or rs, None)
                return out
            return s_two

        def make_one_path(realfn, label):
            def s_one(path, *a, **kw):
                thr = sim.current()
                real = sim.watched(path) if thr else None
                if real is None:
                    return realfn(path, *a, **kw)
                sim.yield_point(thr, label, real)
                if sim.path_creator.get(real, thr.tid) != thr.tid:
                    sim.monitor_violations.append(
                        ("removed-file-of-another-run", thr.tid,
                         os.path.basename(real)))
                out = realfn(path, *a, **kw)
                # a later file of the same name is a new file
                sim.path_creator.pop(real, None)
                sim.path_writers.pop(real, None)
                sim.closed_paths.pop(real, None)
                sim.log(thr.tid, label, real, None)
                return out
            return s_one

        os.open = s_open
        os.write = s_write
        os.close = s_close
        builtins.open = make_open(R["builtins.open"], "open")
        io.open = make_open(R["io.open"], "open")
        os.rename = make_two_path(R["os.rename"], "os.rename")
        os.replace = make_two_path(R["os.replace"], "os.replace")
        os.link = make_two_path(R["os.link"], "os.link")
        os.unlink = make_one_path(R["os.unlink"], "os.unlink")
        os.remove = make_one_path(R["os.remove"], "os.remove")
        return self

    def __exit__(self, *exc):
        os.open = _REAL["os.open"]
        os.write = _REAL["os.write"]
        os.close = _REAL["os.close"]
        builtins.open = _REAL["builtins.open"]
        io.open = _REAL["io.open"]
        os.rename = _REAL["os.rename"]
        os.replace = _REAL["os.replace"]
        os.link = _REAL["os.link"]
        os.unlink = _REAL["os.unlink"]
        os.remove = _REAL["os.remove"]
        return False
