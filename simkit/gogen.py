"""Seeded generator of GOcean workloads for C25: kernel metadata (one module
per kernel, empty subroutine), an algorithm program with one invoke, and a
configuration file with user-defined iteration spaces; plus the set-up that
takes them through the real PSyclone GOcean pipeline.
"""
import os
import re
import shutil
import tempfile

from simkit.core import pick, weighted

PTS = ["go_cu", "go_cv", "go_ct", "go_cf"]
BOUND_EXPRS = ["{start}", "{start}-1", "{stop}", "{stop}+1", "1", "2",
               "{stop}-1", "{start}+1", "{start} - 1", "{stop} + 1"]
GRID_PROPS = ["go_grid_area_t", "go_grid_mask_t", "go_grid_dx_const"]


def gen_scenario(rng):
    offset = pick(rng, ["go_offset_sw", "go_offset_ne"])
    nfields = rng.randint(3, 5)
    fields = {f"f{i + 1}": pick(rng, PTS) for i in range(nfields)}
    spaces = []
    for k in range(weighted(rng, [(4, 0), (3, 1), (2, 2), (1, 3)])):
        lo_o, hi_o = pick(rng, BOUND_EXPRS[:2] + ["1", "2"]), \
            pick(rng, BOUND_EXPRS[2:4] + ["{stop}-1", "{stop}"])
        lo_i, hi_i = pick(rng, BOUND_EXPRS[:2] + ["1", "{start}+1"]), \
            pick(rng, BOUND_EXPRS[2:4] + ["{stop} + 1", "{start}"])
        redefined = None
        if rng.random() < 0.4:
            redefined = [pick(rng, ["1", "{start}"]), pick(rng, ["{stop}",
                                                                 "2"]),
                         pick(rng, ["{start}-1", "2"]),
                         pick(rng, ["{stop}-1", "{start}+1"])]
        spaces.append({"name": f"its_{'abc'[k]}", "redefined": redefined,
                       "offset": pick(rng, [offset, offset,
                                            "go_offset_any"]),
                       "pt": pick(rng, sorted(set(fields.values()))),
                       "bounds": [lo_o, hi_o, lo_i, hi_i]})
    kernels = []
    calls = []
    names = sorted(fields)
    # loop fusion needs neighbours with the same region: half of the
    # scenarios make all kernels update fields of one type over one space
    uniform = rng.random() < 0.5
    upt = pick(rng, sorted(set(fields.values())))
    uits = pick(rng, ["go_internal_pts", "go_all_pts"])
    for ci in range(rng.randint(1, 4)):
        kname = f"kern{ci + 1}"
        koff = offset if rng.random() < (0.95 if uniform else 0.8) \
            else "go_offset_any"
        first = pick(rng, [n for n in names if fields[n] == upt]
                     if uniform else names)
        first_pt = fields[first] if rng.random() < 0.88 or uniform \
            else "go_every"
        cands = [s for s in spaces if s["pt"] == first_pt and
                 s["offset"] == koff]
        its = weighted(rng, [(5, "go_internal_pts"), (3, "go_all_pts"),
                             (4 if cands else 0, "custom")])
        if its == "custom":
            its = pick(rng, cands)["name"]
        elif uniform:
            its = uits
        args = [{"kind": "field", "access": pick(rng, ["go_write",
                                                       "go_write",
                                                       "go_readwrite"]),
                 "pt": first_pt, "actual": first, "stencil": None}]
        others = [n for n in names if n != first]
        rng.shuffle(others)
        for fname in others[:rng.randint(0, min(2, len(others)))]:
            st = None
            if rng.random() < 0.3:
                st = pick(rng, ["000,011,000", "010,111,010", "000,110,000"])
            args.append({"kind": "field", "access": "go_read",
                         "pt": fields[fname], "actual": fname,
                         "stencil": st})
        if rng.random() < 0.25:
            args.append({"kind": "scalar", "access": "go_read",
                         "pt": pick(rng, ["go_r_scalar", "go_i_scalar"]),
                         "actual": None, "stencil": None})
        if rng.random() < 0.2:
            args.append({"kind": "gridprop", "access": "go_read",
                         "pt": pick(rng, GRID_PROPS), "actual": None,
                         "stencil": None})
        if len(args) > 1 and args[1]["kind"] == "field" and \
                rng.random() < 0.3:
            # the argument that decides the iteration space is the first one
            # that is *written*, not necessarily the first in the list
            args[0], args[1] = args[1], args[0]
        kernels.append({"name": kname, "offset": koff, "iterates_over": its,
                        "args": args})
        calls.append(ci)
    if rng.random() < 0.15 and kernels:
        calls.append(rng.randrange(len(kernels)))   # same kernel twice
    return {"offset": offset, "fields": fields, "spaces": spaces,
            "kernels": kernels, "calls": calls}


def space_arg(kern):
    """The kernel argument that fixes the iteration space: the first field
    argument with write access."""
    for a in kern["args"]:
        if a["kind"] == "field" and a["access"] in ("go_write",
                                                    "go_readwrite"):
            return a
    return kern["args"][0]


def kernel_text(kern):
    ents = []
    for a in kern["args"]:
        if a["kind"] == "gridprop":
            ents.append(f"go_arg({a['access'].upper()}, {a['pt'].upper()})")
        else:
            st = "GO_POINTWISE" if not a["stencil"] else \
                f"GO_STENCIL({a['stencil']})"
            ents.append(f"go_arg({a['access'].upper()}, {a['pt'].upper()}, "
                        f"{st})")
    name = kern["name"]
    lines = [f"module {name}_mod", "  use argument_mod", "  use field_mod",
             "  use grid_mod", "  use kernel_mod", "  use kind_params_mod",
             "  implicit none", "  private",
             f"  public {name}, {name}_code",
             f"  type, extends(kernel_type) :: {name}",
             f"     type(go_arg), dimension({len(ents)}) :: meta_args = (/ &"]
    for i, ent in enumerate(ents):
        lines.append("          " + ent + (", &" if i + 1 < len(ents)
                                           else " /)"))
    lines += [f"     integer :: ITERATES_OVER = {kern['iterates_over']}",
              f"     integer :: index_offset = {kern['offset'].upper()}",
              "  contains",
              f"    procedure, nopass :: code => {name}_code",
              f"  end type {name}", "contains",
              f"  subroutine {name}_code()", f"  end subroutine {name}_code",
              f"end module {name}_mod", ""]
    return "\n".join(lines)


def alg_text(scn):
    uses = "\n".join(f"  use {k['name']}_mod, only: {k['name']}"
                     for k in scn["kernels"])
    calls = []
    for ci in scn["calls"]:
        kern = scn["kernels"][ci]
        actual = []
        for a in kern["args"]:
            if a["kind"] == "field":
                actual.append(a["actual"])
            elif a["kind"] == "scalar":
                actual.append("rval" if a["pt"] == "go_r_scalar" else "ival")
        calls.append(f"{kern['name']}({', '.join(actual)})")
    body = ", &\n               ".join(calls)
    return f"""program alg
  use kind_params_mod
  use grid_mod
  use field_mod
{uses}
  implicit none
  type(r2d_field) :: {', '.join(sorted(scn['fields']))}
  real(go_wp) :: rval
  integer :: ival
  call invoke( {body} )
end program alg
"""


def config_text(scn):
    base = open(os.path.join(repo_root(), "config", "psyclone.cfg")).read()
    if not scn["spaces"]:
        return base
    lines = []
    for sp in scn["spaces"]:
        if sp.get("redefined"):
            # an earlier definition of the same space (other bounds) that
            # the later line must replace: the configured region is the one
            # the file gives last
            lines.append(":".join([sp["offset"], sp["pt"], sp["name"]] +
                                  sp["redefined"]))
    for sp in scn["spaces"]:
        lines.append(":".join([sp["offset"], sp["pt"], sp["name"]] +
                              sp["bounds"]))
    entry = "iteration-spaces=" + ("\n" + " " * 17).join(lines) + "\n"
    return re.sub(r"(?m)^\[gocean\]\n", "[gocean]\n" + entry, base, count=1)


def repo_root():
    return os.environ.get("VERIF_REPO", "/repo")


def scratch_root():
    return "/dev/shm" if os.path.isdir("/dev/shm") else tempfile.gettempdir()


def build_psy(scn):
    """Real PSyclone: write kernels, algorithm and config file, load the
    config (its iteration-spaces key feeds GOLoop.add_bounds), parse,
    create the PSy object."""
    from psyclone.configuration import Config
    from psyclone.parse.algorithm import parse
    from psyclone.psyGen import PSyFactory
    from psyclone.gocean1p0 import GOLoop
    from psyclone.domain.gocean import GOceanConstants
    tmp = tempfile.mkdtemp(prefix="gogen", dir=scratch_root())
    try:
        for kern in scn["kernels"]:
            with open(os.path.join(tmp, kern["name"] + "_mod.f90"), "w") as f:
                f.write(kernel_text(kern))
        with open(os.path.join(tmp, "alg.f90"), "w") as f:
            f.write(alg_text(scn))
        cfgfile = os.path.join(tmp, "psyclone.cfg")
        with open(cfgfile, "w") as f:
            f.write(config_text(scn))
        # process-global state: fresh table, fresh constants, fresh config
        GOLoop._bounds_lookup = {}
        GOceanConstants.HAS_BEEN_INITIALISED = False
        Config._instance = None
        cfg = Config.get(do_not_load_file=True)
        cfg.load(config_file=cfgfile)
        cfg.api = "gocean"
        _, info = parse(os.path.join(tmp, "alg.f90"), api="gocean",
                        kernel_paths=[tmp])
        psy = PSyFactory("gocean", distributed_memory=False).create(info)
        return psy
    finally:
        shutil.rmtree(tmp, ignore_errors=True)
