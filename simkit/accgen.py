"""Seeded generator of routines and OpenACC transformation recipes for C13.

Unlike fgen's programs the arrays here have exactly the extent the loops
run over (dimension(n), dimension(n,n)), so that "fully written" is the
common case and "partially written" the deliberate exception.  A program
and its recipe are plain JSON; a replay never needs the PRNG.
"""
from simkit.core import pick, weighted
from simkit.fgen import lit, ref, aref, binop, call, stmt_text, expr_text

R1 = ["a", "b", "c", "d"]
R2 = ["p", "q"]
IARR = ["idx"]
RS = ["x", "y", "t"]
IS = ["k", "m"]
LOOP_VARS = ["i", "j", "l"]


HELPERS = {
    "h_sum": ["do i = 1, n", "  x = x + arr(i)", "end do"],
    "h_scale": ["do i = 1, n", "  arr(i) = arr(i) * 2.0", "end do"],
    "h_first": ["arr(1) = x"],
    "h_fill": ["do i = 1, n", "  arr(i) = x", "end do"],
    "h_shift": ["do i = 2, n", "  arr(i - 1) = arr(i) + x", "end do"],
}


def helper_text(name):
    body = "\n".join("  " + ln for ln in HELPERS[name])
    return (f"subroutine {name}(arr, n, x)\n  integer, intent(in) :: n\n"
            f"  real, dimension(n), intent(inout) :: arr\n"
            f"  real, intent(inout) :: x\n  integer :: i\n{body}\n"
            f"end subroutine {name}\n")


def _sub(rng, var, shape, wild):
    """Subscript expression in bounds for `var` running over `shape`."""
    fam = [(8, "i")]
    if wild:
        fam += [(2, "rev"), (1, "const"), (1, "idx")]
        if shape in ("2..n",):
            fam.append((3, "i-1"))
        if shape in ("1..n-1",):
            fam.append((3, "i+1"))
    kind = weighted(rng, fam)
    if kind == "rev":
        return binop("+", binop("-", ref("n"), ref(var)), lit(1))
    if kind == "const":
        return lit(1)
    if kind == "idx":
        return aref("idx", [ref(var)])
    if kind == "i-1":
        return binop("-", ref(var), lit(1))
    if kind == "i+1":
        return binop("+", ref(var), lit(1))
    return ref(var)


def _rexpr(rng, var, shape, wild, depth=0, var2=None):
    r = rng.random()
    if depth >= 2 or r < 0.4:
        kind = weighted(rng, [(5, "aref"), (2, "scal"), (2, "lit")] +
                        ([(3, "aref2")] if var2 else []))
        if kind == "lit":
            return lit(pick(rng, ["1.0", "2.0", "0.5", "3.0"]), "real")
        if kind == "scal":
            return ref(pick(rng, RS))
        if kind == "aref2":
            return aref(pick(rng, R2), [ref(var), ref(var2)])
        return aref(pick(rng, R1), [_sub(rng, var, shape, wild)])
    if r < 0.48:
        return call("abs", [_rexpr(rng, var, shape, wild, depth + 1, var2)])
    if r < 0.56:
        return call(pick(rng, ["max", "min", "sign"]),
                    [_rexpr(rng, var, shape, wild, depth + 1, var2),
                     _rexpr(rng, var, shape, wild, depth + 1, var2)])
    return binop(pick(rng, ["+", "+", "-", "*"]),
                 _rexpr(rng, var, shape, wild, depth + 1, var2),
                 _rexpr(rng, var, shape, wild, depth + 1, var2))


def _cond(rng, var, shape, wild):
    kind = pick(rng, ["arr", "arr", "ivar", "mod", "scal"])
    if kind == "arr":
        return binop(pick(rng, [">", "<"]),
                     aref(pick(rng, R1), [_sub(rng, var, shape, False)]),
                     lit(pick(rng, ["0.0", "1.0"]), "real"))
    if kind == "ivar":
        return binop(pick(rng, [">", "<"]), ref(var), lit(pick(rng, [1, 2,
                                                                     3])))
    if kind == "mod":
        return binop("==", call("mod", [ref(var), lit(2)]), lit(0))
    return binop(">", ref(pick(rng, RS)), lit("1.0", "real"))


def _body1(rng, var, shape, cfg):
    """Statements of a rank-1 loop body."""
    wild = cfg["wild"]
    out = []
    for _ in range(rng.randint(1, 3)):
        kind = weighted(rng, [(7, "arr"), (cfg["w_cond"], "cond"),
                              (1.5, "tmp"), (0.5, "iarr")])
        if kind == "arr":
            out.append({"k": "assign",
                        "lhs": aref(pick(rng, R1),
                                    [_sub(rng, var, shape,
                                          wild and rng.random() < 0.3)]),
                        "rhs": _rexpr(rng, var, shape, wild)})
        elif kind == "cond":
            target = pick(rng, R1)
            other = {"k": "assign",
                     "lhs": aref(target if rng.random() < 0.6 else
                                 pick(rng, R1), [ref(var)]),
                     "rhs": _rexpr(rng, var, shape, wild)}
            out.append({"k": "if", "cond": _cond(rng, var, shape, wild),
                        "then": [{"k": "assign",
                                  "lhs": aref(target, [ref(var)]),
                                  "rhs": _rexpr(rng, var, shape, wild)}],
                        "else": [other] if rng.random() < 0.35 else []})
        elif kind == "tmp":
            s = pick(rng, RS)
            arr = pick(rng, R1)
            out.append({"k": "assign", "lhs": ref(s),
                        "rhs": _rexpr(rng, var, shape, wild)})
            out.append({"k": "assign", "lhs": aref(arr, [ref(var)]),
                        "rhs": binop("*", ref(s), lit("2.0", "real"))})
        else:
            out.append({"k": "assign", "lhs": aref("idx", [ref(var)]),
                        "rhs": binop("+", binop("-", ref("n"), ref(var)),
                                     lit(1))})
    return out


def _bounds(shape):
    lo, hi, step = lit(1), ref("n"), 1
    if shape == "2..n":
        lo = lit(2)
    elif shape == "1..n-1":
        hi = binop("-", ref("n"), lit(1))
    elif shape == "n..1":
        lo, hi, step = ref("n"), lit(1), -1
    elif shape == "1..k":
        hi = ref("k")
    elif shape == "1..idx":
        hi = aref("idx", [lit(1)])      # a loop bound read from an array
    elif shape == "step2":
        step = 2
    return lo, hi, step


def gen_loop1(rng, cfg, var="i"):
    shape = weighted(rng, [(cfg["w_full"], "1..n"),
                           (cfg["w_full"] / 6 if cfg.get("clean") else 1,
                            "n..1"),
                           (1, "2..n"), (1, "1..n-1"), (0.7, "1..k"),
                           (0.5, "step2"), (0.5, "1..idx")])
    lo, hi, step = _bounds(shape)
    return {"k": "do", "var": var, "lo": lo, "hi": hi, "step": step,
            "body": _body1(rng, var, shape, cfg)}


def gen_loop2(rng, cfg):
    full = cfg.get("clean") or rng.random() < 0.8
    lo2 = lit(1) if full else lit(2)
    body = []
    for _ in range(rng.randint(1, 2)):
        body.append({"k": "assign",
                     "lhs": aref(pick(rng, R2), [ref("i"), ref("j")]),
                     "rhs": _rexpr(rng, "i", "1..n", False, 0, "j")})
    if rng.random() < 0.3:
        body.append({"k": "assign", "lhs": aref(pick(rng, R1), [ref("i")]),
                     "rhs": aref(pick(rng, R2), [ref("i"), ref("j")])})
    return {"k": "do", "var": "j", "lo": lo2, "hi": ref("n"), "step": 1,
            "body": [{"k": "do", "var": "i", "lo": lit(1), "hi": ref("n"),
                      "step": 1, "body": body}]}


def gen_program(rng):
    # Partially written arrays are an open known finding (KF-C13-1): two
    # programs in three are "clean" (full-range loops, no conditional
    # writes, no single-element statements) so that the budget explores
    # what the finding would otherwise mask.
    clean = rng.random() < 0.66
    cfg = {"wild": rng.random() < 0.5, "clean": clean,
           "w_cond": 0.0 if clean else pick(rng, [0.0, 0.5, 1.5]),
           "w_full": 1000 if clean else pick(rng, [6, 6, 12, 30])}
    body = []
    for _ in range(rng.randint(2, 5)):
        kind = weighted(rng, [(6, "loop1"), (2, "loop2"), (1.5, "scal"),
                              (1, "time"), (0.8, "hostif"),
                              (0 if clean else 1, "hostarr"),
                              (1.2, "call")])
        if kind == "call":
            # a call of a routine of the same file with a whole array: the
            # argument is read *and* written as far as PSyclone can tell
            hname = pick(rng, sorted(HELPERS) if not clean else
                         ["h_sum", "h_scale", "h_fill"])
            body.append({"k": "callstmt", "f": hname,
                         "args": [pick(rng, R1), "n", pick(rng, RS)]})
            continue
        if kind == "loop1":
            body.append(gen_loop1(rng, cfg))
        elif kind == "loop2":
            body.append(gen_loop2(rng, cfg))
        elif kind == "scal":
            body.append({"k": "assign", "lhs": ref(pick(rng, RS)),
                         "rhs": lit(pick(rng, ["1.0", "2.0", "0.5"]),
                                    "real")})
        elif kind == "time":
            inner = [gen_loop1(rng, cfg)]
            if rng.random() < 0.4:
                inner.append(gen_loop1(rng, cfg))
            body.append({"k": "do", "var": "l", "lo": lit(1), "hi": lit(2),
                         "step": 1, "body": inner})
        elif kind == "hostif":
            body.append({"k": "if",
                         "cond": binop(">", ref(pick(rng, RS)),
                                       lit("0.0", "real")),
                         "then": [gen_loop1(rng, cfg)], "else": []})
        else:
            # host statement touching an array element (only legal inside
            # a data region when update directives are generated)
            body.append({"k": "assign",
                         "lhs": aref(pick(rng, R1), [lit(1)]),
                         "rhs": binop("+", aref(pick(rng, R1), [ref("n")]),
                                      ref(pick(rng, RS)))})
    # INTENT(OUT) says nothing about the value on entry to a *region*:
    # some arrays are declared so (the simulation gives them initial
    # values in both runs, so nothing else changes)
    intents = {a: "out" for a in R1 if rng.random() < 0.25}
    return {"name": "sub", "body": body, "intents": intents}


def touches_array(st):
    found = []
    if st.get("k") == "callstmt":
        return True

    def rec(e):
        if isinstance(e, dict):
            if e.get("k") == "aref":
                found.append(e["n"])
            for v in e.values():
                rec(v)
        elif isinstance(e, list):
            for v in e:
                rec(v)
    rec(st)
    return bool(found)


def gen_recipe(rng, prog):
    """Which statements go to the device, which ranges get data regions,
    in which order the transformations are applied."""
    body = prog["body"]
    n = len(body)
    units = []          # {"path": [...], "kind":..., "dp":bool}

    def compute_unit(path, st):
        kind = weighted(rng, [(5, "kernels"), (4, "parallel"), (1, "host")])
        return {"path": path, "kind": kind,
                "dp": rng.random() < 0.6,
                "loopdir": rng.random() < 0.8}
    for i, st in enumerate(body):
        if st["k"] == "do" and st["var"] == "l":
            for k, inner in enumerate(st["body"]):
                units.append(compute_unit([i, k], inner))
        elif st["k"] == "if":
            for k, inner in enumerate(st["then"]):
                units.append(compute_unit([i, k], inner))
        elif st["k"] == "do":
            units.append(compute_unit([i], st))
    # data regions: one or two disjoint ranges of top-level statements
    ranges = []
    s = rng.randrange(n)
    e = rng.randrange(s, n)
    if rng.random() < 0.5:
        s, e = 0, n - 1
    ranges.append([s, e])
    if e + 1 < n and rng.random() < 0.3:
        s2 = rng.randrange(e + 1, n)
        ranges.append([s2, rng.randrange(s2, n)])
    wrappers = [i for i, st in enumerate(body)
                if (st["k"] == "do" and st["var"] == "l") or st["k"] == "if"]
    inner = None
    if wrappers and rng.random() < 0.25:
        # a second data region around the statements inside a host loop /
        # host IF; when an outer region encloses it the arrays are already
        # present (reference counted, no movement)
        inner = pick(rng, wrappers)
    return {"units": units, "data": ranges, "inner_data": inner,
            "order": pick(rng, ["compute-first", "compute-first",
                                "data-first"]),
            # ACCUpdateTrans is not part of the property's mechanism (and
            # does not look inside data regions); kept in the recipe format
            # for experiments only
            "update": False,
            "chunk_after": rng.random() < 0.15,
            # the statement that follows the (first) data region is moved to
            # the end of the region afterwards: the clauses must follow
            "move_in": rng.random() < 0.2}


def program_text(prog):
    args = ["n"] + R1 + R2 + IARR + RS + IS
    lines = [f"subroutine {prog['name']}({', '.join(args)})",
             "  integer, intent(in) :: n"]
    for a in R1:
        intent = prog.get("intents", {}).get(a, "inout")
        lines.append(f"  real, dimension(n), intent({intent}) :: {a}")
    for a in R2:
        lines.append(f"  real, dimension(n,n), intent(inout) :: {a}")
    for a in IARR:
        lines.append(f"  integer, dimension(n), intent(inout) :: {a}")
    for s in RS:
        lines.append(f"  real, intent(inout) :: {s}")
    for s in IS:
        lines.append(f"  integer, intent(inout) :: {s}")
    lines.append("  integer :: " + ", ".join(LOOP_VARS))
    for st in prog["body"]:
        lines += stmt_text(st, 1)
    lines.append(f"end subroutine {prog['name']}")
    text = "\n".join(lines) + "\n"
    used = sorted({st["f"] for st in _all_stmts(prog["body"])
                   if st["k"] == "callstmt"})
    for hname in used:
        text += helper_text(hname)
    return text


def _all_stmts(stmts):
    for st in stmts:
        yield st
        if st["k"] == "do":
            yield from _all_stmts(st["body"])
        elif st["k"] == "if":
            yield from _all_stmts(st["then"])
            yield from _all_stmts(st.get("else", []))


def gen_inputs(rng):
    n = rng.randint(2, 6)
    store = {"n": n}
    for a in R1:
        store[a] = {"lb": [1], "ub": [n],
                    "data": [float(rng.randint(-3, 6)) * 0.5
                             for _ in range(n)]}
    for a in R2:
        store[a] = {"lb": [1, 1], "ub": [n, n],
                    "data": [float(rng.randint(-3, 6)) * 0.5
                             for _ in range(n * n)]}
    for a in IARR:
        store[a] = {"lb": [1], "ub": [n],
                    "data": [rng.randint(1, n) for _ in range(n)]}
    for s in RS:
        store[s] = float(rng.randint(-2, 4)) * 0.5
    for s in IS:
        store[s] = rng.randint(1, n)
    for v in LOOP_VARS:
        store[v] = 0
    return store


def with_n(inputs, n):
    """The same inputs cut down to a smaller n (for minimisation)."""
    old = inputs["n"]
    if n >= old:
        return inputs
    out = {"n": n}
    for name, val in inputs.items():
        if name == "n":
            continue
        if isinstance(val, dict):
            if len(val["lb"]) == 1:
                data = val["data"][:n]
                if name in IARR:
                    data = [min(v, n) for v in data]
                out[name] = {"lb": [1], "ub": [n], "data": data}
            else:
                data = [val["data"][i + j * old] for j in range(n)
                        for i in range(n)]
                out[name] = {"lb": [1, 1], "ub": [n, n], "data": data}
        elif name in IS:
            out[name] = min(val, n)
        else:
            out[name] = val
    return out


# --------------------------------------------------------------------------
# textual access order inside a statement range (independent of PSyclone's
# own analysis): used for root-cause features only, never for the verdict
# --------------------------------------------------------------------------
def access_sequence(stmts):
    seq = []

    def reads(e):
        if not isinstance(e, dict):
            return
        if e["k"] == "aref":
            for s in e["s"]:
                reads(s)
            seq.append((e["n"], "R"))
        elif e["k"] == "bin":
            reads(e["a"])
            reads(e["b"])
        elif e["k"] == "call":
            for a in e["a"]:
                reads(a)

    def stmt(st):
        if st["k"] == "assign":
            reads(st["rhs"])
            if st["lhs"]["k"] == "aref":
                for s in st["lhs"]["s"]:
                    reads(s)
                seq.append((st["lhs"]["n"], "W"))
        elif st["k"] == "callstmt":
            seq.append((st["args"][0], "RW"))
        elif st["k"] == "do":
            reads(st["lo"])
            reads(st["hi"])
            for b in st["body"]:
                stmt(b)
        elif st["k"] == "if":
            reads(st["cond"])
            for b in st["then"]:
                stmt(b)
            for b in st.get("else", []):
                stmt(b)
    for st in stmts:
        stmt(st)
    return seq


def first_access(stmts, name):
    for nm, kind in access_sequence(stmts):
        if nm == name:
            return kind
    return None
