"""Seeded generator of small Fortran routines (JSON AST -> text) for the E3
engines (C09, C08, C13) and, in "rich" mode, for E4 (C26, C10, C04).

A program is a dict; everything needed to re-create the text is in it, so a
replay never needs the PRNG.  Shapes are fixed and generous so that the
subscript family below stays in bounds for loop ranges within 1..N (N<=8):

  rank-1 arrays  (-8:48)      rank-2 arrays (-4:24,-4:24)
"""
from simkit.core import pick, weighted

R1 = (-8, 48)
R2 = (-4, 24)
REAL_ARRAYS = ["a", "b", "c"]
REAL_ARRAYS2 = ["p", "q"]
INT_ARRAYS = ["idx", "jdx"]
REAL_SCALARS = ["x", "y", "t"]
INT_SCALARS = ["k", "m"]
# only used by C08 programs (names the analysis itself may generate)
D_SCALARS = ["d_i", "d1_i"]
LOOP_VARS = ["i", "j", "l"]


def lit(v, t="int"):
    return {"k": "lit", "v": v, "t": t}


def ref(n):
    return {"k": "ref", "n": n}


def aref(n, subs):
    return {"k": "aref", "n": n, "s": subs}


def binop(op, a, b):
    return {"k": "bin", "op": op, "a": a, "b": b}


def call(f, args):
    return {"k": "call", "f": f, "a": args}


# --------------------------------------------------------------------------
# subscripts
# --------------------------------------------------------------------------
def gen_subscript(rng, var, cfg, depth_vars):
    """Integer expression in the loop variable `var` that stays within
    1-4 .. 2*8+2 for var in 1..8."""
    fam = cfg["subscripts"]
    kind = weighted(rng, fam)
    if kind == "i":
        return ref(var)
    if kind == "i+c":
        c = pick(rng, [-2, -1, 1, 2, 1, -1])
        return binop("+" if c > 0 else "-", ref(var), lit(abs(c)))
    if kind == "c*i":
        return binop("*", lit(2), ref(var))
    if kind == "c*i+c":
        return binop("+", binop("*", lit(2), ref(var)), lit(pick(rng, [1, 2])))
    if kind == "i/c":
        return binop("+", binop("/", ref(var), lit(2)), lit(1))
    if kind == "mod":
        return binop("+", call("mod", [ref(var), lit(pick(rng, [2, 3]))]),
                     lit(1))
    if kind == "n-i":
        return binop("+", binop("-", ref("n"), ref(var)), lit(1))
    if kind == "idx":
        return aref(pick(rng, INT_ARRAYS), [ref(var)])
    if kind == "const":
        return lit(pick(rng, [1, 2, 3]))
    if kind == "scalar":
        return ref(pick(rng, INT_SCALARS))
    if kind == "kdiv":
        # integer division of a loop-invariant scalar: k/2, (k+1)/2, ...
        base = ref(pick(rng, INT_SCALARS))
        if rng.random() < 0.5:
            base = binop("+", base, lit(pick(rng, [1, 1, 3])))
        e = binop("/", base, lit(pick(rng, [2, 2, 4])))
        return binop("+", e, lit(1)) if rng.random() < 0.3 else e
    if kind == "i+d":
        return binop("+", ref(var), ref(pick(rng, D_SCALARS)))
    if kind == "other" and len(depth_vars) > 1:
        return ref(pick(rng, [v for v in depth_vars if v != var]))
    if kind in ("i+j", "i-j") and len(depth_vars) > 1:
        # two loop variables in one subscript: different (i, j) pairs reach
        # the same element
        other = pick(rng, [v for v in depth_vars if v != var])
        if kind == "i+j":
            return binop("+", ref(var), ref(other))
        return binop("+", binop("-", ref(var), ref(other)), ref("n"))
    return ref(var)


SUBS_PLAIN = [(6, "i"), (3, "i+c"), (1, "c*i"), (1, "const"), (1, "other")]
SUBS_WILD = [(4, "i"), (3, "i+c"), (2, "c*i"), (1, "c*i+c"), (2, "i/c"),
             (2, "mod"), (2, "n-i"), (2, "idx"), (1, "const"), (2, "scalar"),
             (1, "other"), (1.5, "i+j"), (1, "i-j"), (1.5, "kdiv")]
SUBS_SAFE = [(8, "i"), (1, "c*i"), (1, "other")]


def gen_real_expr(rng, cfg, vars_, depth=0, scalars=None):
    """Real-typed expression over arrays at generated subscripts, real
    scalars and literals (values stay small and dyadic)."""
    scalars = scalars if scalars is not None else REAL_SCALARS
    r = rng.random()
    if depth >= 2 or r < 0.35:
        kind = weighted(rng, [(4, "aref"), (3, "scal"), (2, "lit"),
                              (1, "aref2")])
        if kind == "lit":
            return lit(pick(rng, ["1.0", "2.0", "0.5", "3.0"]), "real")
        if kind == "scal":
            return ref(pick(rng, scalars))
        if kind == "aref2" and len(vars_) >= 2:
            return aref(pick(rng, REAL_ARRAYS2),
                        [gen_subscript(rng, vars_[-1], cfg, vars_),
                         gen_subscript(rng, vars_[0], cfg, vars_)])
        return aref(pick(rng, REAL_ARRAYS),
                    [gen_subscript(rng, pick(rng, vars_), cfg, vars_)])
    if r < 0.45:
        return call(pick(rng, ["abs", "max", "min"]),
                    [gen_real_expr(rng, cfg, vars_, depth + 1, scalars)] +
                    ([] if False else []))
    op = pick(rng, ["+", "+", "-", "*"])
    return binop(op, gen_real_expr(rng, cfg, vars_, depth + 1, scalars),
                 gen_real_expr(rng, cfg, vars_, depth + 1, scalars))


def _fix_calls(e, rng):
    """max/min need two arguments."""
    if isinstance(e, dict):
        if e.get("k") == "call" and e["f"] in ("max", "min") and \
                len(e["a"]) == 1:
            e["a"].append(lit("1.0", "real"))
        for v in e.values():
            if isinstance(v, dict):
                _fix_calls(v, rng)
            elif isinstance(v, list):
                for x in v:
                    _fix_calls(x, rng)
    return e


def gen_cond(rng, cfg, vars_):
    kind = pick(rng, ["arr", "scal", "ivar", "mod"])
    if kind == "arr":
        return binop(pick(rng, [">", "<"]),
                     aref(pick(rng, REAL_ARRAYS),
                          [gen_subscript(rng, vars_[-1], cfg, vars_)]),
                     lit(pick(rng, ["0.0", "1.0", "2.0"]), "real"))
    if kind == "scal":
        return binop(pick(rng, [">", "<"]), ref(pick(rng, REAL_SCALARS)),
                     lit("1.0", "real"))
    if kind == "mod":
        return binop("==", call("mod", [ref(vars_[-1]), lit(2)]), lit(0))
    return binop(pick(rng, [">", "<", "=="]), ref(vars_[-1]),
                 lit(pick(rng, [2, 3, 4])))


def gen_assign(rng, cfg, vars_):
    kind = weighted(rng, cfg["stmts"])
    if kind == "arr":
        lhs = aref(pick(rng, REAL_ARRAYS),
                   [gen_subscript(rng, vars_[-1] if rng.random() < 0.8
                                  else pick(rng, vars_), cfg, vars_)])
        return {"k": "assign", "lhs": lhs,
                "rhs": _fix_calls(gen_real_expr(rng, cfg, vars_), rng)}
    if kind == "arr2" and len(vars_) >= 2:
        lhs = aref(pick(rng, REAL_ARRAYS2),
                   [gen_subscript(rng, vars_[-1], cfg, vars_),
                    gen_subscript(rng, vars_[0], cfg, vars_)])
        return {"k": "assign", "lhs": lhs,
                "rhs": _fix_calls(gen_real_expr(rng, cfg, vars_), rng)}
    if kind == "stencil2" and len(vars_) >= 2:
        # a rank-2 stencil on the array that is written: the bread and
        # butter of real kernels (a(i,j) = a(i-1,j-1) + b(i,j)); offsets in
        # both directions so that the dependence may sit on either loop
        arr = pick(rng, REAL_ARRAYS2)
        other = pick(rng, REAL_ARRAYS2)
        d1, d2 = pick(rng, [(-1, -1), (1, -1), (-1, 1), (1, 1), (0, -1),
                            (-1, 0), (0, 1), (1, 0), (2, -1), (-1, 2)])

        def shifted(var, d):
            if d == 0:
                return ref(var)
            return binop("+" if d > 0 else "-", ref(var), lit(abs(d)))
        lhs = aref(arr, [ref(vars_[-1]), ref(vars_[0])])
        src = aref(arr if rng.random() < 0.75 else other,
                   [shifted(vars_[-1], d1), shifted(vars_[0], d2)])
        return {"k": "assign", "lhs": lhs,
                "rhs": binop("+", src, aref(other, [ref(vars_[-1]),
                                                    ref(vars_[0])]))}
    if kind == "stencil_kdiv":
        # a loop-carried shift in one subscript and truncating divisions of
        # a loop-invariant scalar in the other: c(i, k/2) = c(i+1, (k+1)/2)
        # (k/2 and (k+1)/2 are the same element for every even k)
        arr = pick(rng, REAL_ARRAYS2)
        var = vars_[-1]
        sc = pick(rng, INT_SCALARS)
        pairs = [(binop("/", ref(sc), lit(2)),
                  binop("/", binop("+", ref(sc), lit(1)), lit(2))),
                 (binop("/", binop("+", ref(sc), lit(1)), lit(2)),
                  binop("+", binop("/", ref(sc), lit(2)), lit(1))),
                 (binop("/", binop("+", ref(sc), lit(3)), lit(4)),
                  binop("/", binop("+", ref(sc), lit(1)), lit(4))),
                 (binop("/", ref(sc), lit(2)), binop("/", ref(sc), lit(2)))]
        s1, s2 = pick(rng, pairs)
        if rng.random() < 0.5:
            s1, s2 = s2, s1
        d = pick(rng, [1, -1, 1, 2])
        shifted = binop("+" if d > 0 else "-", ref(var), lit(abs(d)))
        return {"k": "assign", "lhs": aref(arr, [ref(var), s1]),
                "rhs": binop("+", aref(arr, [shifted, s2]),
                             lit("1.0", "real"))}
    if kind == "scal":
        name = pick(rng, REAL_SCALARS)
        st = {"k": "assign", "lhs": ref(name),
              "rhs": _fix_calls(gen_real_expr(rng, cfg, vars_), rng)}
        if rng.random() < cfg.get("p_use_after_write", 0.0):
            # temporaries are normally used after being set
            arr = pick(rng, REAL_ARRAYS)
            use = {"k": "assign", "lhs": aref(arr, [ref(vars_[-1])]),
                   "rhs": binop(pick(rng, ["+", "*"]),
                                aref(arr, [ref(vars_[-1])]), ref(name))}
            return [st, use]
        return st
    if kind == "iscal":
        rhs = weighted(rng, [(2, "sub"), (1, "idx")])
        if rhs == "idx":
            e = aref(pick(rng, INT_ARRAYS), [ref(vars_[-1])])
        else:
            e = gen_subscript(rng, vars_[-1], dict(cfg, subscripts=SUBS_PLAIN),
                              vars_)
        name = pick(rng, INT_SCALARS)
        st = {"k": "assign", "lhs": ref(name), "rhs": e}
        if rng.random() < cfg.get("p_use_after_write", 0.0):
            use = {"k": "assign",
                   "lhs": aref(pick(rng, REAL_ARRAYS), [ref(name)]),
                   "rhs": _fix_calls(gen_real_expr(rng, cfg, vars_), rng)}
            return [st, use]
        return st
    if kind == "accum":
        s = pick(rng, REAL_SCALARS)
        return {"k": "assign", "lhs": ref(s),
                "rhs": binop("+", ref(s),
                             aref(pick(rng, REAL_ARRAYS), [ref(vars_[-1])]))}
    if kind == "iarr":
        return {"k": "assign",
                "lhs": aref(pick(rng, INT_ARRAYS), [ref(vars_[-1])]),
                "rhs": gen_subscript(rng, vars_[-1],
                                     dict(cfg, subscripts=SUBS_PLAIN), vars_)}
    lhs = aref(pick(rng, REAL_ARRAYS), [ref(vars_[-1])])
    return {"k": "assign", "lhs": lhs,
            "rhs": _fix_calls(gen_real_expr(rng, cfg, vars_), rng)}


def gen_body(rng, cfg, vars_, depth, budget):
    body = []
    n = rng.randint(1, budget)
    for _ in range(n):
        r = rng.random()
        if r < cfg["p_if"] and depth < 3:
            blk = {"k": "if", "cond": gen_cond(rng, cfg, vars_),
                   "then": gen_body(rng, cfg, vars_, depth + 1, 2),
                   "else": gen_body(rng, cfg, vars_, depth + 1, 1)
                   if rng.random() < 0.3 else []}
            body.append(blk)
        elif r < cfg["p_if"] + cfg["p_inner"] and len(vars_) < 3 and \
                depth < 3:
            body.append(gen_loop(rng, cfg, vars_, depth + 1, 2))
        else:
            got = gen_assign(rng, cfg, vars_)
            body.extend(got if isinstance(got, list) else [got])
    return body


def gen_loop(rng, cfg, outer_vars, depth, budget):
    var = LOOP_VARS[len(outer_vars)]
    shape = weighted(rng, [(6, "1..n"), (1, "n..1"), (1, "2..n"),
                           (1, "step2"), (1, "1..n-1"), (1, "const")])
    lo, hi, step = lit(1), ref("n"), 1
    if shape == "n..1":
        lo, hi, step = ref("n"), lit(1), -1
    elif shape == "2..n":
        lo = lit(2)
    elif shape == "step2":
        step = 2
    elif shape == "1..n-1":
        hi = binop("-", ref("n"), lit(1))
    elif shape == "const":
        hi = lit(pick(rng, [3, 4]))
    vars_ = outer_vars + [var]
    return {"k": "do", "var": var, "lo": lo, "hi": hi, "step": step,
            "body": gen_body(rng, cfg, vars_, depth, budget)}


def gen_program(rng, mode="omp"):
    """mode: 'omp' (C09), 'dep' (C08), 'acc' (C13)."""
    wild = rng.random() < 0.5
    dnames = mode == "dep" and rng.random() < 0.15
    subs = SUBS_WILD if wild else pick(rng, [SUBS_PLAIN, SUBS_SAFE])
    if dnames:
        subs = subs + [(3, "i+d")]
    cfg = {
        "subscripts": subs,
        "stmts": [(6, "arr"), (2, "arr2"), (3, "scal"), (1, "iscal"),
                  (0.6, "accum"), (0.5, "iarr"), (2, "stencil2"),
                  (1, "stencil_kdiv")],
        "p_if": pick(rng, [0.0, 0.15, 0.3]),
        "p_inner": pick(rng, [0.0, 0.2, 0.35]),
        # write-only scalars in a loop are a known finding (KF-C09-3);
        # most programs use their temporaries so that the budget is not
        # spent re-finding it
        "p_use_after_write": pick(rng, [1.0, 1.0, 1.0, 0.9, 0.5, 0.0]),
    }
    prefix = []
    for _ in range(rng.randint(0, 2)):
        # scalar set-up before the loop (may end up inside the region)
        prefix.append({"k": "assign", "lhs": ref(pick(rng, REAL_SCALARS)),
                       "rhs": lit(pick(rng, ["1.0", "2.0", "0.5"]), "real")})
    loops = [gen_loop(rng, cfg, [], 1, 3)]
    if rng.random() < 0.3:
        loops.append(gen_loop(rng, cfg, [], 1, 2))
    perfect3 = mode == "omp" and rng.random() < 0.07
    if perfect3:
        # a perfectly nested three-deep loop whose dependence, if any, sits
        # on one particular level (collapse(3) must look at all three)
        level = pick(rng, [0, 1, 2, 2, None])
        arr, src = pick(rng, REAL_ARRAYS2), pick(rng, REAL_ARRAYS2)
        subs = {0: [ref("j"), ref("l")], 1: [ref("i"), ref("l")],
                2: [ref("i"), ref("j")], None: [ref("i"), ref("j")]}[level]
        rhs = binop("+", aref(arr, subs) if level is not None
                    else aref(src, [ref("j"), ref("i")]),
                    aref(pick(rng, REAL_ARRAYS), [ref("l")]))
        body = {"k": "assign", "lhs": aref(arr, subs), "rhs": rhs}
        if level is None:
            body["lhs"] = aref(arr, [ref("i"), ref("j")])
            body = [body, {"k": "assign",
                           "lhs": aref(pick(rng, REAL_ARRAYS), [ref("l")]),
                           "rhs": lit("1.0", "real")}][:1]
        else:
            body = [body]

        def lp(var, inner):
            return {"k": "do", "var": var, "lo": lit(1), "hi": ref("n"),
                    "step": 1, "body": inner}
        loops = [lp("i", [lp("j", [lp("l", body)])])]
    flow2 = mode == "omp" and not perfect3 and rng.random() < 0.06
    if flow2:
        # two worksharing loops in one region: a scalar only read in the
        # first and written-then-read in the second needs its value from
        # before the region (firstprivate, not private)
        sc = pick(rng, REAL_SCALARS)
        a1, a2, a3 = pick(rng, REAL_ARRAYS), pick(rng, REAL_ARRAYS), \
            pick(rng, REAL_ARRAYS)

        def lp(body):
            return {"k": "do", "var": "i", "lo": lit(1), "hi": ref("n"),
                    "step": 1, "body": body}
        first = lp([{"k": "assign", "lhs": aref(a1, [ref("i")]),
                     "rhs": binop("*", ref(sc), lit("2.0", "real"))}])
        second = lp([{"k": "assign", "lhs": ref(sc),
                      "rhs": aref(a2, [ref("i")])},
                     {"k": "assign", "lhs": aref(a3, [ref("i")]),
                      "rhs": binop("+", ref(sc), lit("1.0", "real"))}])
        if a3 == a1:
            second["body"][1]["lhs"] = aref(a1, [ref("i")])
        loops = [first, second]
    prog = {"name": "sub", "n_max": 8, "body": prefix + loops}
    if perfect3:
        prog["perfect3"] = True
    if flow2:
        prog["flow2"] = True
    if dnames:
        prog["dnames"] = True
    return prog


# --------------------------------------------------------------------------
# text
# --------------------------------------------------------------------------
def expr_text(e):
    k = e["k"]
    if k == "lit":
        return str(e["v"])
    if k == "ref":
        return e["n"]
    if k == "aref":
        return f"{e['n']}({', '.join(expr_text(s) for s in e['s'])})"
    if k == "bin":
        return f"({expr_text(e['a'])} {e['op']} {expr_text(e['b'])})"
    if k == "call":
        return f"{e['f']}({', '.join(expr_text(a) for a in e['a'])})"
    if k == "neg":
        return f"(-{expr_text(e['a'])})"
    raise KeyError(k)


def stmt_text(s, ind):
    pad = "  " * ind
    if s["k"] == "assign":
        return [f"{pad}{expr_text(s['lhs'])} = {expr_text(s['rhs'])}"]
    if s["k"] == "do":
        head = f"{pad}do {s['var']} = {expr_text(s['lo'])}, " \
               f"{expr_text(s['hi'])}"
        if s["step"] != 1:
            head += f", {s['step']}"
        out = [head]
        for b in s["body"]:
            out += stmt_text(b, ind + 1)
        return out + [f"{pad}end do"]
    if s["k"] == "callstmt":
        return [f"{pad}call {s['f']}({', '.join(s['args'])})"]
    if s["k"] == "if":
        out = [f"{pad}if ({expr_text(s['cond'])}) then"]
        for b in s["then"]:
            out += stmt_text(b, ind + 1)
        if s.get("else"):
            out.append(f"{pad}else")
            for b in s["else"]:
                out += stmt_text(b, ind + 1)
        return out + [f"{pad}end if"]
    raise KeyError(s["k"])


def program_text(prog):
    args = ["n"] + REAL_ARRAYS + REAL_ARRAYS2 + INT_ARRAYS + REAL_SCALARS + \
        INT_SCALARS
    lines = [f"subroutine {prog['name']}({', '.join(args)})",
             "  integer, intent(in) :: n"]
    for a in REAL_ARRAYS:
        lines.append(f"  real, dimension({R1[0]}:{R1[1]}), intent(inout) "
                     f":: {a}")
    for a in REAL_ARRAYS2:
        lines.append(f"  real, dimension({R2[0]}:{R2[1]},{R2[0]}:{R2[1]}), "
                     f"intent(inout) :: {a}")
    for a in INT_ARRAYS:
        lines.append(f"  integer, dimension({R1[0]}:{R1[1]}), intent(inout) "
                     f":: {a}")
    for s in REAL_SCALARS:
        lines.append(f"  real, intent(inout) :: {s}")
    for s in INT_SCALARS:
        lines.append(f"  integer, intent(inout) :: {s}")
    lines.append("  integer :: " + ", ".join(LOOP_VARS))
    if prog.get("dnames"):
        lines.append("  integer :: " + ", ".join(D_SCALARS))
    for st in prog["body"]:
        lines += stmt_text(st, 1)
    lines.append(f"end subroutine {prog['name']}")
    return "\n".join(lines) + "\n"


def gen_inputs(rng, n=None):
    """Initial store: small exact values; idx arrays hold values in 1..n
    with repeats (adversarial for index-array subscripts)."""
    n = n if n is not None else rng.randint(1, 8)
    store = {"n": n}
    for a in REAL_ARRAYS:
        store[a] = {"lb": [R1[0]], "ub": [R1[1]],
                    "data": [float(rng.randint(-3, 6)) * 0.5
                             for _ in range(R1[1] - R1[0] + 1)]}
    for a in REAL_ARRAYS2:
        size = (R2[1] - R2[0] + 1)
        store[a] = {"lb": [R2[0], R2[0]], "ub": [R2[1], R2[1]],
                    "data": [float(rng.randint(-3, 6)) * 0.5
                             for _ in range(size * size)]}
    for a in INT_ARRAYS:
        store[a] = {"lb": [R1[0]], "ub": [R1[1]],
                    "data": [rng.randint(1, max(1, n))
                             for _ in range(R1[1] - R1[0] + 1)]}
    for s in REAL_SCALARS:
        store[s] = float(rng.randint(-2, 4)) * 0.5
    for s in INT_SCALARS:
        store[s] = rng.randint(1, max(1, n))
    for v in LOOP_VARS:
        store[v] = 0
    for v in D_SCALARS:
        store[v] = rng.randint(0, 2)
    return store
