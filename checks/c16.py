"""C16 - symbol tables keep names unique and lookups scoped.

Engine E2 (S-hist): seeded histories of SymbolTable operations over a nest
of real ScopingNodes plus free-standing tables; the fault is the refusal
raised by the system itself.  Oracle: DESIGN 4.5.
"""
from simkit.core import stream, digest, pick, Counters

PROPERTY = "C16"
ENGINE = "E2-history"
LEVEL = "exploration"
RULE = ("Seeded histories (<=30 ops) of new_symbol/add/find_or_create[_tag]/"
        "lookup[_with_tag]/next_available_name/rename_symbol/remove/swap/"
        "swap_symbol_properties/merge/attach/detach/specify_argument_list "
        "over 5 nested real scopes (Container>Routine>Loop body>If body, "
        "sibling Routine) and free-standing tables, names from a small "
        "case-variant alphabet. Non-trivial: >=5 ops, >=1 refused and >=1 "
        "accepted mutation. Distinct by digest of (op, argument shapes, "
        "outcome) sequence.")
REAL_VS_STUB = {
    "psyclone.psyir.symbols.SymbolTable, Symbol classes, ScopingNode":
        "real code from /repo working tree",
    "reference model": "per table dict(normalised name -> symbol), "
                       "dict(tag -> symbol), scope chain; merge judged by "
                       "post-conditions",
    "scheduler/clock": "none: single-threaded history; the injected fault is "
                       "the refusal raised by the system itself"}
ASSUMPTIONS = [
    "After a successful merge the other table is discarded (as InlineTrans "
    "does); symbol objects are never deliberately added to two live tables.",
    "A scope is never left without a table: detach is always followed by an "
    "attach of some table in the same step.",
    "The atomicity digest covers what the property talks about (names, "
    "identities, tags, argument list, scope chain, import container links), "
    "not incidental attributes such as specialisation of an unresolved "
    "symbol to IntrinsicSymbol by check_for_clashes."]

NAMES = ["a", "A", "b", "B", "a_1", "A_1", "b_1", "c", "sin", "mod1", "Mod1",
         "a_2"]
TAGS = ["t1", "t2", "T1", "t3"]
KINDS = ["gen", "local", "arg", "imp", "unres", "cont", "contw", "routine",
         "intr", "static"]


def plan(tier):
    if tier == "thorough":
        return {"runs": 300000, "slice": 1500, "budget_s": 1500,
                "slice_timeout_s": 600}
    return {"runs": 16000, "slice": 400, "budget_s": 120,
            "slice_timeout_s": 600}


PRESETS = {
    # swarm style: each run draws one workload mix
    "mixed": {"new_symbol": 2, "add": 2, "find_or_create": 1,
              "find_or_create_tag": 1, "lookup": 1, "lookup_tag": 1,
              "next_name": 2, "rename": 2, "remove": 1, "swap": 1,
              "swap_props": 1, "merge": 2, "reattach": 1, "attach_bad": 0.3,
              "arglist": 1, "new_table": 1, "fill_table": 2},
    "merge": {"add": 3, "new_table": 2, "fill_table": 6, "merge": 4,
              "rename": 1, "lookup": 1, "next_name": 1, "new_symbol": 1},
    "scopes": {"new_symbol": 4, "add": 3, "lookup": 3, "lookup_tag": 2,
               "next_name": 4, "find_or_create": 2, "find_or_create_tag": 2,
               "reattach": 2, "rename": 2, "new_table": 1, "fill_table": 1},
    "churn": {"add": 3, "rename": 4, "remove": 3, "swap": 3, "swap_props": 2,
              "arglist": 2, "new_symbol": 2, "lookup": 1},
}


def gen_ops(rng, n):
    ops = []
    preset = PRESETS[pick(rng, sorted(PRESETS))]
    names = sorted(preset)
    weights = [preset[k] for k in names]
    # a small per-run name alphabet makes clashes likely
    alphabet = rng.sample(NAMES, rng.randint(3, 6))
    for _ in range(n):
        op = {"op": rng.choices(names, weights)[0],
              "t": rng.randrange(1 << 16),
              "o": rng.randrange(1 << 16), "s": rng.randrange(1 << 16),
              "s2": rng.randrange(1 << 16),
              "name": pick(rng, alphabet), "name2": pick(rng, alphabet),
              "kind": pick(rng, KINDS),
              "tag": pick(rng, TAGS) if rng.random() < 0.4 else None,
              "shadow": rng.random() < 0.4,
              "flag": rng.random() < 0.5,
              "tsel": pick(rng, ["attached", "attached", "any"]),
              "lim": rng.randrange(8)}
        if op["op"] in ("merge", "arglist"):
            op["skip"] = [rng.randrange(1 << 16)
                          for _ in range(rng.randint(0, 2))]
        ops.append(op)
    return ops


class World:
    def __init__(self):
        from psyclone.psyir import nodes as N
        from psyclone.psyir import symbols as S
        self.N, self.S = N, S
        S0 = S.SymbolTable
        cont = N.Container("cont")
        rout = N.Routine("rout")
        cont.addchild(rout)
        ivar = S.DataSymbol("ivar", S.INTEGER_TYPE)
        loop = N.Loop.create(ivar, N.Literal("1", S.INTEGER_TYPE),
                             N.Literal("2", S.INTEGER_TYPE),
                             N.Literal("1", S.INTEGER_TYPE), [])
        rout.addchild(loop)
        ifb = N.IfBlock.create(N.Literal("true", S.BOOLEAN_TYPE), [])
        loop.loop_body.addchild(ifb)
        rout2 = N.Routine("rout2")
        cont.addchild(rout2)
        # rout/rout2 constructors registered routine symbols nowhere visible
        self.scopes = [cont, rout, loop.loop_body, ifb.if_body, rout2]
        self.scope_parent = [None, 0, 1, 2, 0]
        # start from empty tables so that the model knows everything
        for node in self.scopes:
            node.symbol_table.detach()
            S0().attach(node)
        self.tables = [n.symbol_table for n in self.scopes]  # live tables
        self.symbols = []     # every symbol object we ever saw
        self.sym_ids = {}
        self.model = {id(t): self.empty_model() for t in self.tables}
        self._S0 = S0

    @staticmethod
    def empty_model():
        return {"names": {}, "tags": {}, "args": []}

    # ---- ids ----
    def sid(self, sym):
        if id(sym) not in self.sym_ids:
            self.sym_ids[id(sym)] = len(self.symbols)
            self.symbols.append(sym)
        return self.sym_ids[id(sym)]

    def tid(self, table):
        for i, t in enumerate(self.tables):
            if t is table:
                return i
        return -1

    def scope_of(self, table):
        for i, node in enumerate(self.scopes):
            if node.symbol_table is table:
                return i
        return None

    def chain(self, table, limit_scope=None):
        """Model scope chain: tables from `table` outwards, honouring the
        scope_limit semantics (ancestors of the limit are not searched)."""
        out = [table]
        sc = self.scope_of(table)
        if sc is None:
            return out
        while True:
            if limit_scope is not None and sc == limit_scope:
                break
            par = self.scope_parent[sc]
            if par is None:
                break
            sc = par
            out.append(self.scopes[sc].symbol_table)
        return out

    # ---- observation ----
    def real_state(self, table):
        S = self.S
        names = {}
        for key, sym in table.symbols_dict.items():
            cont = None
            if isinstance(sym.interface, S.ImportInterface):
                cont = self.sid(sym.interface.container_symbol)
            names[key] = (self.sid(sym), sym.name, cont)
        tags = {tag: self.sid(sym) for tag, sym in table.tags_dict.items()}
        args = [self.sid(s) for s in table._argument_list]
        return {"names": names, "tags": tags, "args": args,
                "scope": self.scope_of(table)}

    def snapshot(self):
        return [self.real_state(t) for t in self.tables]

    def check_invariants(self):
        for ti, table in enumerate(self.tables):
            seen = {}
            for key, sym in table.symbols_dict.items():
                low = sym.name.lower()
                if low != key:
                    return ("key-name-mismatch", {"table": ti, "key": key,
                                                  "name": sym.name})
                if low in seen:
                    return ("duplicate-name-in-table",
                            {"table": ti, "name": sym.name})
                seen[low] = sym
            if len({id(s) for s in table.symbols_dict.values()}) != \
                    len(table.symbols_dict):
                return ("symbol-listed-twice", {"table": ti})
            for tag, sym in table.tags_dict.items():
                if not any(s is sym for s in table.symbols_dict.values()):
                    return ("tag-points-outside-table",
                            {"table": ti, "tag": tag, "name": sym.name})
            # model agreement (identity maps)
            mod = self.model[id(table)]
            real_names = {k: id(s) for k, s in table.symbols_dict.items()}
            mod_names = {k: id(s) for k, s in mod["names"].items()}
            if real_names != mod_names:
                return ("table-differs-from-model", {
                    "table": ti,
                    "only_real": sorted(set(real_names) - set(mod_names)),
                    "only_model": sorted(set(mod_names) - set(real_names)),
                    "different": sorted(k for k in real_names
                                        if k in mod_names and
                                        real_names[k] != mod_names[k])})
            real_tags = {k: id(s) for k, s in table.tags_dict.items()}
            mod_tags = {k: id(s) for k, s in mod["tags"].items()}
            if real_tags != mod_tags:
                return ("tags-differ-from-model", {
                    "table": ti, "real": sorted(real_tags),
                    "model": sorted(mod_tags)})
        return None

    # ---- symbol factory ----
    def make_symbol(self, kind, name, table):
        S = self.S
        if kind == "gen":
            return S.Symbol(name)
        if kind == "local":
            return S.DataSymbol(name, S.INTEGER_TYPE)
        if kind == "static":
            return S.DataSymbol(name, S.REAL_TYPE,
                                interface=S.StaticInterface())
        if kind == "arg":
            return S.DataSymbol(name, S.REAL_TYPE,
                                interface=S.ArgumentInterface())
        if kind == "unres":
            return S.DataSymbol(name, S.UnresolvedType(),
                                interface=S.UnresolvedInterface())
        if kind in ("cont", "contw"):
            return S.ContainerSymbol(name, wildcard_import=(kind == "contw"))
        if kind == "routine":
            return S.RoutineSymbol(name)
        if kind == "intr":
            # the only way an IntrinsicSymbol gets into a table in PSyclone:
            # an unresolved symbol named like an intrinsic, specialised
            sym = S.Symbol("sin", interface=S.UnresolvedInterface())
            sym.specialise(S.IntrinsicSymbol)
            return sym
        if kind == "imp":
            conts = []
            for tab in self.chain(table):
                conts += [s for s in self.model[id(tab)]["names"].values()
                          if isinstance(s, S.ContainerSymbol)]
            if not conts:
                return S.DataSymbol(name, S.INTEGER_TYPE)
            return S.DataSymbol(name, S.UnresolvedType(),
                                interface=S.ImportInterface(conts[0]))
        raise KeyError(kind)


def kind_of(world, sym):
    S = world.S
    if isinstance(sym, S.ContainerSymbol):
        return "cont"
    if isinstance(sym, S.IntrinsicSymbol):
        return "intr"
    if isinstance(sym, S.RoutineSymbol):
        return "routine"
    if sym.is_import:
        return "imp"
    if sym.is_unresolved:
        return "unres"
    if sym.is_argument:
        return "arg"
    if isinstance(sym, S.DataSymbol):
        return "data"
    return "gen"


def same_entity(world, s_other, s_self):
    """The cases in which merge legitimately represents `s_other` by a
    symbol `s_self` that was already in the receiving table."""
    S = world.S
    if isinstance(s_other, S.ContainerSymbol) and \
            isinstance(s_self, S.ContainerSymbol):
        return True
    if isinstance(s_other, S.IntrinsicSymbol) and \
            isinstance(s_self, S.IntrinsicSymbol):
        return True
    if s_other.is_import and s_self.is_import:
        io, isf = s_other.interface, s_self.interface
        return (io.container_symbol.name.lower() ==
                isf.container_symbol.name.lower() and
                (io.orig_name or s_other.name).lower() ==
                (isf.orig_name or s_self.name).lower())
    if s_other.is_unresolved and s_self.is_unresolved:
        return True
    return False


def execute(world, op, counters=None):
    """Returns (desc, err, violation-or-None).  Updates the model when the
    operation is accepted."""
    S = world.S
    name = op["op"]
    attached = [t for t in world.tables if world.scope_of(t) is not None]
    free = [t for t in world.tables if world.scope_of(t) is None]
    pool = attached if (op["tsel"] == "attached" or not free) \
        else world.tables
    table = pool[op["t"] % len(pool)]
    mod = world.model[id(table)]
    ti = world.tid(table)
    syms_here = list(mod["names"].values())
    vio = None
    desc = (name, ti)

    def scope_names(tab, shadow):
        tabs = [tab] if shadow else world.chain(tab)
        out = set()
        for t in tabs:
            out |= set(world.model[id(t)]["names"])
        return out

    try:
        if name == "new_table":
            tab = world._S0()
            world.tables.append(tab)
            world.model[id(tab)] = world.empty_model()
            return (name,), None, None
        if name == "fill_table":
            # populate a free table through the public API (feeds merge)
            if not free:
                return ("skip",), None, None
            tab = free[op["o"] % len(free)]
            sym = world.make_symbol(op["kind"], op["name"], tab)
            world.sid(sym)
            desc = (name, world.tid(tab), op["kind"], op["name"])
            tab.add(sym)
            world.model[id(tab)]["names"][sym.name.lower()] = sym
            return desc, None, None
        if name == "new_symbol":
            taken = scope_names(table, op["shadow"])
            stype = {"gen": None, "local": S.DataSymbol,
                     "routine": S.RoutineSymbol}.get(op["kind"])
            kwargs = {}
            if stype is S.DataSymbol:
                kwargs["datatype"] = S.INTEGER_TYPE
            if stype is not None:
                kwargs["symbol_type"] = stype
            if op["flag"] is False and op["lim"] < 3:
                kwargs["allow_renaming"] = False
            desc = (name, ti, op["name"], op["tag"], op["shadow"],
                    op["kind"], sorted(kwargs))
            sym = table.new_symbol(op["name"], tag=op["tag"],
                                   shadowing=op["shadow"], **kwargs)
            world.sid(sym)
            if sym.name.lower() in taken:
                vio = ("new-symbol-name-clashes",
                       {"name": sym.name, "taken": sorted(taken)})
            mod["names"][sym.name.lower()] = sym
            if op["tag"]:
                mod["tags"][op["tag"]] = sym
        elif name == "add":
            sym = world.make_symbol(op["kind"], op["name"], table)
            world.sid(sym)
            desc = (name, ti, op["kind"], op["name"], op["tag"])
            table.add(sym, tag=op["tag"])
            mod["names"][sym.name.lower()] = sym
            if op["tag"]:
                mod["tags"][op["tag"]] = sym
        elif name == "find_or_create":
            expected = None
            for tab in world.chain(table):
                hit = world.model[id(tab)]["names"].get(op["name"].lower())
                if hit is not None:
                    expected = hit
                    break
            kwargs = {}
            if op["flag"]:
                kwargs = {"symbol_type": S.DataSymbol,
                          "datatype": S.INTEGER_TYPE}
            desc = (name, ti, op["name"], sorted(kwargs),
                    expected is not None)
            taken = scope_names(table, False)
            sym = table.find_or_create(op["name"], **kwargs)
            world.sid(sym)
            if expected is not None:
                if sym is not expected:
                    vio = ("find-or-create-wrong-symbol",
                           {"name": op["name"], "got": sym.name})
            else:
                if sym.name.lower() in taken:
                    vio = ("new-symbol-name-clashes", {"name": sym.name})
                mod["names"][sym.name.lower()] = sym
        elif name == "find_or_create_tag":
            tag = op["tag"] or "t1"
            expected = None
            for tab in world.chain(table):
                hit = world.model[id(tab)]["tags"].get(tag)
                if hit is not None:
                    expected = hit
                    break
            desc = (name, ti, tag, op["name"], expected is not None)
            taken = scope_names(table, False)
            sym = table.find_or_create_tag(tag, root_name=op["name"])
            world.sid(sym)
            if expected is not None:
                if sym is not expected:
                    vio = ("find-or-create-tag-wrong-symbol",
                           {"tag": tag, "got": sym.name})
            else:
                if sym.name.lower() in taken:
                    vio = ("new-symbol-name-clashes", {"name": sym.name})
                mod["names"][sym.name.lower()] = sym
                mod["tags"][tag] = sym
        elif name in ("lookup", "lookup_tag"):
            lim = op["lim"] if op["lim"] < len(world.scopes) else None
            limnode = None if lim is None else world.scopes[lim]
            tabs = world.chain(table, lim)
            key = op["name"].lower() if name == "lookup" else \
                (op["tag"] or "t1")
            which = "names" if name == "lookup" else "tags"
            expected = None
            for tab in tabs:
                hit = world.model[id(tab)][which].get(key)
                if hit is not None:
                    expected = hit
                    break
            desc = (name, ti, key, lim, expected is not None)
            try:
                if name == "lookup":
                    got = table.lookup(op["name"], scope_limit=limnode)
                else:
                    got = table.lookup_with_tag(key, scope_limit=limnode)
            except KeyError as err:
                if expected is not None:
                    vio = ("lookup-missed-visible-symbol",
                           {"key": key, "table": ti, "limit": lim})
                return desc, err, vio
            if got is not expected:
                vio = ("lookup-not-innermost", {
                    "key": key, "table": ti, "limit": lim,
                    "got": got.name, "expected":
                    None if expected is None else expected.name})
            # `in` must agree for the table itself
            if name == "lookup" and ((op["name"] in table) !=
                                     (key in mod["names"])):
                vio = ("contains-disagrees", {"key": key, "table": ti})
        elif name == "next_name":
            other = None
            if op["flag"] and len(world.tables) > 1:
                other = world.tables[op["o"] % len(world.tables)]
            taken = scope_names(table, op["shadow"])
            if other is not None:
                taken |= set(world.model[id(other)]["names"])
            root = op["name"] if op["lim"] else None
            desc = (name, ti, root, op["shadow"],
                    None if other is None else world.tid(other))
            got = table.next_available_name(root, shadowing=op["shadow"],
                                            other_table=other)
            if got.lower() in taken:
                vio = ("next-available-name-clashes",
                       {"got": got, "table": ti, "shadowing": op["shadow"],
                        "other": None if other is None else world.tid(other),
                        "taken": sorted(taken)})
        elif name == "rename":
            if op["flag"] and syms_here:
                sym = syms_here[op["s"] % len(syms_here)]
            elif world.symbols:
                sym = world.symbols[op["s"] % len(world.symbols)]
            else:
                return ("skip",), None, None
            new = op["name2"]
            desc = (name, ti, kind_of(world, sym), sym.name, new,
                    any(s is sym for s in syms_here))
            old_key = sym.name.lower()
            table.rename_symbol(sym, new)
            del mod["names"][old_key]
            mod["names"][new.lower()] = sym
        elif name == "remove":
            if op["flag"] and syms_here:
                sym = syms_here[op["s"] % len(syms_here)]
            elif world.symbols:
                sym = world.symbols[op["s"] % len(world.symbols)]
            else:
                return ("skip",), None, None
            desc = (name, ti, kind_of(world, sym), sym.name,
                    any(s is sym for s in syms_here))
            table.remove(sym)
            del mod["names"][sym.name.lower()]
            for tag in [t for t, s in mod["tags"].items() if s is sym]:
                del mod["tags"][tag]
        elif name == "swap":
            if not syms_here:
                return ("skip",), None, None
            old = syms_here[op["s"] % len(syms_here)]
            newname = old.name if op["flag"] else op["name2"]
            if op["lim"] == 0:
                newname = newname.swapcase()
            new = world.make_symbol(pick_kind_for_swap(op), newname, table)
            world.sid(new)
            desc = (name, ti, kind_of(world, old), old.name, new.name)
            table.swap(old, new)
            del mod["names"][old.name.lower()]
            mod["names"][new.name.lower()] = new
            for tag in [t for t, s in mod["tags"].items() if s is old]:
                del mod["tags"][tag]
        elif name == "swap_props":
            if len(syms_here) < 1:
                return ("skip",), None, None
            s1 = syms_here[op["s"] % len(syms_here)]
            s2 = syms_here[op["s2"] % len(syms_here)]
            desc = (name, ti, kind_of(world, s1), kind_of(world, s2),
                    s1 is s2)
            table.swap_symbol_properties(s1, s2)
        elif name == "arglist":
            cands = syms_here or world.symbols
            if not cands:
                return ("skip",), None, None
            args = [cands[k % len(cands)] for k in op["skip"]]
            desc = (name, ti, [kind_of(world, s) for s in args])
            table.specify_argument_list(args)
            mod["args"] = list(args)
        elif name == "reattach":
            # detach this scope's table and attach a free one (or itself)
            sc = world.scope_of(table)
            if sc is None:
                return ("skip",), None, None
            new = free[op["o"] % len(free)] if (free and op["flag"]) \
                else table
            desc = (name, ti, world.tid(new))
            table.detach()
            new.attach(world.scopes[sc])
        elif name == "attach_bad":
            sc = op["lim"] % len(world.scopes)
            desc = (name, ti, sc)
            table.attach(world.scopes[sc])
            # only legal if it was a no-op situation; never expected
            vio = ("attach-accepted-on-occupied-scope",
                   {"table": ti, "scope": sc})
        elif name == "merge":
            others = [t for t in free if t is not table]
            if not others:
                return ("skip",), None, None
            other = others[op["o"] % len(others)]
            omod = world.model[id(other)]
            osyms = list(omod["names"].values())
            skip = [osyms[k % len(osyms)] for k in op["skip"]] \
                if osyms else []
            pre_self = dict(mod["names"])
            outer_names = set()
            for tab in world.chain(table)[1:]:
                outer_names |= set(world.model[id(tab)]["names"])
            pre_self_names = {id(s): s.name for s in pre_self.values()}
            pre_other_names = {id(s): s.name for s in osyms}
            desc = (name, ti, world.tid(other),
                    sorted(kind_of(world, s) + ":" + s.name for s in osyms),
                    sorted(s.name for s in skip))
            clashing = set(pre_self) & {n.lower() for n in
                                        pre_other_names.values()}
            try:
                table.merge(other, symbols_to_skip=skip)
            except Exception:
                if counters is not None:
                    counters.inc2("probes", "merge_refused")
                    if clashing:
                        counters.inc2("probes", "merge_refused_with_clash")
                raise
            if counters is not None:
                counters.inc2("probes", "merge_accepted")
                if osyms:
                    counters.inc2("probes", "merge_accepted_nonempty")
                if clashing:
                    counters.inc2("probes", "merge_accepted_with_clash")
                if any(s.name != pre_self_names[id(s)]
                       for s in pre_self.values()):
                    counters.inc2("probes", "merge_renamed_own_symbol")
                if any(s.name != pre_other_names[id(s)] for s in osyms):
                    counters.inc2("probes", "merge_renamed_other_symbol")
                if world.scope_of(table) not in (None, 0):
                    counters.inc2("probes", "merge_into_nested_scope")
            vio = check_merge(world, table, pre_self, pre_self_names, osyms,
                              pre_other_names, skip, outer_names)
            # resync model from the real table; discard `other`
            mod["names"] = dict(table.symbols_dict)
            mod["tags"] = dict(table.tags_dict)
            world.tables = [t for t in world.tables if t is not other]
            del world.model[id(other)]
        else:
            raise KeyError(name)
    except RecursionError:
        raise
    except Exception as err:
        return desc, err, None
    return desc, None, vio


def pick_kind_for_swap(op):
    return op["kind"] if op["kind"] in ("gen", "routine", "cont", "local") \
        else "gen"


def check_merge(world, table, pre_self, pre_self_names, osyms,
                pre_other_names, skip, outer_names=()):
    S = world.S
    now = table.symbols_dict
    now_ids = {id(s) for s in now.values()}
    # (1) everything self had is still there
    for key, sym in pre_self.items():
        if id(sym) not in now_ids:
            return ("merge-lost-own-symbol", {"name": sym.name})
    pre_keys_self = set(pre_self)
    pre_keys_other = {n.lower() for n in pre_other_names.values()}
    for sym in osyms:
        if any(sym is s for s in skip):
            continue
        present = id(sym) in now_ids
        equivalent = [s for s in pre_self.values()
                      if s is not sym and
                      pre_self_names[id(s)].lower() ==
                      pre_other_names[id(sym)].lower() and
                      same_entity(world, sym, s)]
        if present and equivalent and not isinstance(sym, S.ContainerSymbol):
            # represented twice: itself and its pre-existing equivalent
            return ("merge-added-symbol-twice", {"name": sym.name})
        if not present and not equivalent:
            return ("merge-dropped-symbol",
                    {"name": pre_other_names[id(sym)],
                     "kind": kind_of(world, sym)})
    # (2) renamed only where needed
    for sym in list(pre_self.values()) + list(osyms):
        old = pre_self_names.get(id(sym), pre_other_names.get(id(sym)))
        if sym.name != old:
            if not (old.lower() in pre_keys_self and
                    old.lower() in pre_keys_other):
                return ("merge-renamed-without-clash",
                        {"old": old, "new": sym.name})
    # (2b) a name generated by the merge is fresh: it clashes neither with
    # the receiving table's enclosing scopes nor with the other table
    for sym in list(pre_self.values()) + list(osyms):
        old = pre_self_names.get(id(sym), pre_other_names.get(id(sym)))
        if sym.name != old and sym.name.lower() in outer_names:
            return ("merge-generated-name-clashes-with-enclosing-scope",
                    {"old": old, "new": sym.name})
    # (3) imports point at containers visible from the receiving table
    for sym in osyms:
        if id(sym) in now_ids and sym.is_import:
            csym = sym.interface.container_symbol
            if any(csym is s for s in skip):
                continue    # the caller asked for the container to be left
            if not any(csym is s for s in osyms):
                # the container was declared in a scope *enclosing* the
                # other table, so it is not part of what is merged: where it
                # ends up is not the merge's business (the property speaks
                # of the symbols of the other table)
                continue
            try:
                found = table.lookup(csym.name)
            except KeyError:
                found = None
            if found is not csym:
                return ("merge-import-container-not-in-scope",
                        {"symbol": sym.name, "container": csym.name})
    return None


def fault_kind(err):
    msg = str(err)
    tname = type(err).__name__
    if "already contains a symbol" in msg or "must not already exist" in msg:
        return "name-clash"
    if "already contains the tag" in msg:
        return "tag-clash"
    if "Could not find" in msg:
        return "lookup-miss"
    if "Cannot rename" in msg:
        return "rename-forbidden"
    if "Cannot merge" in msg:
        return "merge-unresolvable-clash"
    if "only supports" in msg:
        return "remove-unsupported-kind"
    if "already has a symbol table" in msg or "already bound" in msg:
        return "attach-occupied"
    if "renaming is disallowed" in msg:
        return "renaming-disallowed"
    if "must belong to this" in msg or "does not exist" in msg or \
            "is not in the symbol" in msg:
        return "foreign-symbol"
    return tname


def run_history(ops, counters=None, log=None):
    world = World()
    accepted = refused = 0
    pattern = []
    for step, op in enumerate(ops):
        before = world.snapshot()
        ntab = len(world.tables)
        tables_before = list(world.tables)
        desc, err, vio = execute(world, op, counters)
        if counters is not None:
            counters.inc2("ops", op["op"])
        if err is not None:
            refused += 1
            if counters is not None:
                counters.inc2("faults_fired", fault_kind(err))
            after = [world.real_state(t) for t in tables_before]
            if after != before:
                diffs = [(i, _diff(before[i], after[i]))
                         for i in range(ntab) if before[i] != after[i]]
                return {"class": "refused-op-changed-state:" + op["op"],
                        "step": step, "observed": {
                            "op": desc, "error": f"{type(err).__name__}: "
                            f"{str(err)[:300]}", "diff": diffs[:4]}}
        else:
            if [world.real_state(t) for t in tables_before] != before:
                accepted += 1
        if vio is not None:
            return {"class": vio[0] + ":" + op["op"], "step": step,
                    "observed": {"op": desc, "detail": vio[1]}}
        bad = world.check_invariants()
        if bad:
            return {"class": bad[0] + ":" + op["op"], "step": step,
                    "observed": {"op": desc, "detail": bad[1], "raised":
                                 None if err is None else
                                 f"{type(err).__name__}: {str(err)[:200]}"}}
        pattern.append((desc[0], [str(d) for d in desc[1:]], err is None
                        if err is None else type(err).__name__))
        if log is not None:
            log.append((desc, None if err is None else type(err).__name__,
                        digest(world.snapshot())))
    return {"class": None, "accepted": accepted, "refused": refused,
            "pattern": pattern}


def _diff(b, a):
    out = {}
    for key in ("names", "tags", "args", "scope"):
        if b[key] != a[key]:
            out[key] = {"before": b[key], "after": a[key]}
    return out


def ddmin_ops(ops, cls):
    def fails(cand):
        return run_history(cand)["class"] == cls
    chunk = max(1, len(ops) // 2)
    while chunk >= 1:
        i = 0
        while i < len(ops):
            cand = ops[:i] + ops[i + chunk:]
            if cand != ops and fails(cand):
                ops = cand
            else:
                i += chunk
        chunk //= 2
    return ops


def run_one(seed, index, tier):
    counters = Counters()
    rng = stream(seed, "ops")
    ops = gen_ops(rng, rng.randint(5, 30))
    log = []
    res = run_history(ops, counters, log)
    out = {"counters": counters, "steps": len(log), "violations": [],
           "log_digest": digest(log)}
    if res["class"] is not None:
        cls = res["class"]
        mops = ddmin_ops(ops, cls)
        final = run_history(mops)
        out["violations"].append({
            "class": cls,
            "replay": {"property": PROPERTY, "engine": ENGINE,
                       "engine_version": 1, "seed": seed, "run_index": index,
                       "violation_class": cls,
                       "scenario": {"scopes": "Container>Routine>Loop body>"
                                    "If body, sibling Routine"},
                       "schedule": mops,
                       "faults": "the refusals raised by the system itself",
                       "observed": final.get("observed")}})
        return out
    if len(ops) >= 5 and res["accepted"] >= 1 and res["refused"] >= 1:
        out["digest"] = digest(res["pattern"])
        if index < 16 or index % 499 == 0:
            out["sample"] = {"history": res["pattern"]}
    counters.inc("accepted_mutations", res["accepted"])
    counters.inc("refused_ops", res["refused"])
    return out


def replay(rep):
    res = run_history(rep["schedule"])
    if res["class"] is None:
        return None
    return {"class": res["class"], "observed": res.get("observed")}


def signature_match(sig, vio):
    if not vio["class"].startswith(sig.get("class_prefix", "\x00")):
        return False
    need = sig.get("observed_contains")
    if need:
        from simkit.core import canon
        return need in canon(vio["replay"].get("observed"))
    return True
