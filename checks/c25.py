"""C25 - GOcean loops visit exactly the configured grid points.

Seeded GOcean invokes (generated kernel metadata, algorithm, configuration
file with user-defined iteration spaces) go through the real PSyclone
pipeline and a seeded history of GOcean transformations; the *generated
PSy-layer text* is then executed against a stub dl_esm_inf, OpenMP regions
as a team of simulated threads under a seeded scheduler, and the recorded
history of kernel calls (sequence number, thread, call site, i, j) is checked:
every call site visits exactly its region once, and at every grid point the
kernels are called in invoke order.  The region oracle is independent of the
tree under test: a frozen copy of the built-in table (checks/c25_table.py)
and my own evaluation of the configuration text.  DESIGN 4.13.
"""
import copy
import random
import sys

from simkit.core import stream, digest, pick, Counters
from simkit import gogen, gosim, runner
from checks.c25_table import TABLE

PROPERTY = "C25"
ENGINE = "E6-gocean"
LEVEL = "exploration"
RULE = ("Seeded GOcean invokes: 1-5 kernel calls over 3-5 fields on "
        "cu/cv/ct/cf points, index offset sw or ne (kernels may say 'any'), "
        "iteration spaces internal/all/'every' and 0-3 user-defined spaces "
        "read from a generated configuration file, grid sizes 3..7; "
        "histories of <=6 of GOConstLoopBoundsTrans, GOceanLoopFuseTrans "
        "(outer then inner), GOceanOMPParallelLoopTrans, GOceanOMPLoopTrans+"
        "OMPParallelTrans (static/dynamic/guided, chunks), ACCLoopTrans/"
        "ACCParallelTrans/ACCEnterDataTrans, GOceanExtractTrans. The "
        "generated text is executed for the empty history and after the "
        "full history with 1-4 threads under seeded schedules. Non-trivial: "
        ">=1 accepted transformation and code generation succeeded. Distinct "
        "by (scenario digest, accepted history, T, schedule digest).")
REAL_VS_STUB = {
    "GOcean config parsing (iteration-spaces -> GOLoop.add_bounds), kernel "
    "metadata parsing, PSy-layer creation, GOLoop bounds, all "
    "transformations, code generation": "real code from /repo",
    "dl_esm_inf (field internal/whole regions, data extents, grid "
    "subdomain)": "stub: simkit/gosim.py, regions from the frozen table "
                  "for the grid's own index offset",
    "OpenMP run time": "stub: team of generator threads, seeded scheduler, "
                       "static/dynamic/guided worksharing, barriers",
    "OpenACC": "constructs executed sequentially (one gang)",
    "kernels": "stub: a call is recorded, nothing is computed"}
ASSUMPTIONS = [
    "{start} is 2 and {stop} the grid's internal xstop/ystop (what the "
    "constant-loop-bounds transformation and the custom-bound code "
    "substitute); data arrays have extent stop+1 so that the depth-1 halo "
    "exists.",
    "The stub's field regions are the frozen table's go_internal_pts / "
    "go_all_pts entries for the grid's own offset (sw or ne); a kernel "
    "declaring go_offset_any runs on such a grid.",
    "Parallel regions are only put around loops that all carry a "
    "worksharing directive (replicating an unshared loop is the script "
    "author's decision, as in C09); the simulator still replicates, so a "
    "lost directive shows as repeated calls.",
    "The textual order of kernel CALL statements is the invoke order (no "
    "transformation that reorders kernels is in the histories).",
    "GOMoveIterationBoundariesInsideKernelTrans and OpenCL are not "
    "generated (they move the region test into the kernel)."]

TRANS = ["const", "const", "fuse", "fuse", "fuse-inner", "omp-parallel-loop",
         "omp-parallel-loop", "omp-loop-region", "omp-loop-region",
         "acc-loop", "acc-parallel", "acc-enter-data", "extract"]
SCHEDS = ["static", "static", "static", "dynamic", "dynamic", "guided",
          "guided", "auto", "runtime", "none", "static,2"]


def plan(tier):
    if tier == "thorough":
        return {"runs": 40000, "slice": 50, "budget_s": 2400,
                "slice_timeout_s": 1200}
    return {"runs": 800, "slice": 20, "budget_s": 150,
            "slice_timeout_s": 400}


# --------------------------------------------------------------------------
# the oracle's own arithmetic
# --------------------------------------------------------------------------
def eval_bound(text, stop):
    expr = text.replace("{start}", "2").replace("{stop}", str(stop))
    return gosim.Expr(expr, lambda p: (_ for _ in ()).throw(
        gosim.Discard("name in bound " + p))).parse()


def region_from(entry, istop, jstop):
    """entry: [outer start, outer stop, inner start, inner stop]"""
    return (eval_bound(entry[0], jstop), eval_bound(entry[1], jstop),
            eval_bound(entry[2], istop), eval_bound(entry[3], istop))


def stub_fields(scn, istop, jstop):
    out = {}
    for name, pt in scn["fields"].items():
        out[name] = {
            "internal": region_from(
                TABLE[f"{scn['offset']}:{pt}:go_internal_pts"], istop, jstop),
            "whole": region_from(
                TABLE[f"{scn['offset']}:{pt}:go_all_pts"], istop, jstop)}
    return out


def expected_region(scn, call_index, istop, jstop):
    kern = scn["kernels"][scn["calls"][call_index]]
    first = gogen.space_arg(kern)
    pt, its = first["pt"], kern["iterates_over"]
    if pt == "go_every":
        return (1, jstop + 1, 1, istop + 1)
    if its in ("go_internal_pts", "go_all_pts"):
        # the field's own region on this grid (a go_offset_any kernel runs
        # on a grid that has one of the two real offsets)
        fpt = scn["fields"][first["actual"]]
        return region_from(TABLE[f"{scn['offset']}:{fpt}:{its}"], istop,
                           jstop)
    for sp in scn["spaces"]:
        if sp["name"] == its and sp["pt"] == pt and \
                sp["offset"] == kern["offset"]:
            return region_from(sp["bounds"], istop, jstop)
    return None


def points(region):
    ys, ye, xs, xe = region
    return [(i, j) for j in range(ys, ye + 1) for i in range(xs, xe + 1)]


# --------------------------------------------------------------------------
def _op(rng, kind, n=None):
    return {"t": kind, "n": rng.randrange(1 << 16) if n is None else n,
            "span": pick(rng, [1, 2, 3, 4]), "sched": pick(rng, SCHEDS)}


def gen_history(rng):
    """Unstructured histories, and the pipelines a script would write
    (const bounds? -> fuse outer -> fuse inner -> parallelise)."""
    shape = pick(rng, ["random", "random", "omp", "omp", "acc"])
    if shape == "random":
        return [_op(rng, pick(rng, TRANS)) for _ in range(rng.randint(1, 6))]
    ops = []
    n = rng.randrange(1 << 16)
    if rng.random() < 0.4:
        ops.append(_op(rng, "const"))
    if rng.random() < 0.6:
        ops.append(_op(rng, "fuse", n))
        if rng.random() < 0.7:
            ops.append(_op(rng, "fuse-inner", n))
    if shape == "omp":
        ops.append(_op(rng, pick(rng, ["omp-parallel-loop",
                                       "omp-loop-region"]), n))
    else:
        ops.append(_op(rng, "acc-loop", n))
        ops.append(_op(rng, "acc-parallel", n))
        ops.append(_op(rng, "acc-enter-data"))
    if rng.random() < 0.3:
        ops.insert(rng.randrange(len(ops) + 1), _op(rng, pick(rng, TRANS)))
    if rng.random() < 0.3:
        ops.append(_op(rng, "const"))
    return ops


def apply_history(psy, ops, counters=None):
    from psyclone.transformations import (
        GOceanOMPParallelLoopTrans, GOceanOMPLoopTrans, OMPParallelTrans,
        ACCLoopTrans, ACCParallelTrans, ACCEnterDataTrans)
    from psyclone.domain.gocean.transformations import (
        GOConstLoopBoundsTrans, GOceanLoopFuseTrans, GOceanExtractTrans)
    from psyclone.psyir.transformations import TransformationError
    from psyclone.psyir.nodes import Loop
    sched = psy.invokes.invoke_list[0].schedule
    out = []

    def top_of(node):
        while node.parent is not sched and node.parent is not None:
            node = node.parent
        return node

    for op in ops:
        kind = op["t"]
        outers = [lp for lp in sched.walk(Loop)
                  if getattr(lp, "loop_type", "") == "outer"]
        try:
            if kind == "const":
                GOConstLoopBoundsTrans().apply(sched)
            elif kind == "acc-enter-data":
                ACCEnterDataTrans().apply(sched)
            elif not outers:
                raise TransformationError("no loop")
            elif kind == "fuse":
                cands = [lp for lp in outers if lp.position + 1 <
                         len(lp.parent.children) and isinstance(
                             lp.parent.children[lp.position + 1], Loop)]
                if not cands:
                    raise TransformationError("no adjacent loops")
                lp = cands[op["n"] % len(cands)]
                GOceanLoopFuseTrans().apply(
                    lp, lp.parent.children[lp.position + 1])
            elif kind == "fuse-inner":
                cands = []
                for lp in outers:
                    kids = lp.loop_body.children
                    for a, b in zip(kids, kids[1:]):
                        if isinstance(a, Loop) and isinstance(b, Loop):
                            cands.append((a, b))
                if not cands:
                    raise TransformationError("no adjacent inner loops")
                a, b = cands[op["n"] % len(cands)]
                GOceanLoopFuseTrans().apply(a, b)
            elif kind == "omp-parallel-loop":
                GOceanOMPParallelLoopTrans(omp_schedule=op["sched"]).apply(
                    outers[op["n"] % len(outers)])
            elif kind == "omp-loop-region":
                first = top_of(outers[op["n"] % len(outers)])
                pos = first.position
                span = sched.children[pos:pos + op["span"]]
                loops = [n for n in span if isinstance(n, Loop)]
                if len(loops) != len(span):
                    raise TransformationError("range holds non-loops")
                for lp in loops:
                    GOceanOMPLoopTrans(omp_schedule=op["sched"]).validate(lp)
                for lp in loops:
                    GOceanOMPLoopTrans(omp_schedule=op["sched"]).apply(lp)
                pos = top_of(loops[0]).position
                OMPParallelTrans().apply(
                    sched.children[pos:pos + len(loops)])
            elif kind == "acc-loop":
                ACCLoopTrans().apply(outers[op["n"] % len(outers)])
            elif kind == "acc-parallel":
                first = top_of(outers[op["n"] % len(outers)])
                pos = first.position
                ACCParallelTrans().apply(
                    sched.children[pos:pos + op["span"]])
            elif kind == "extract":
                first = top_of(outers[op["n"] % len(outers)])
                pos = first.position
                GOceanExtractTrans().apply(
                    sched.children[pos:pos + op["span"]])
            out.append((kind, "accepted"))
        except TransformationError:
            out.append((kind, "refused"))
        except Exception as err:
            out.append((kind, "error:" + type(err).__name__))
            if counters is not None:
                counters.inc2("aborted_internal_error",
                              kind + ":" + type(err).__name__)
            break
        if counters is not None:
            counters.inc2("transformations", kind + ":" + out[-1][1])
            if out[-1][1] == "refused":
                counters.inc2("faults_fired", "refusal")
    return out


def generate(scn, ops, counters=None):
    """Returns dict(status, code, outcomes)."""
    from psyclone.errors import GenerationError
    psy = gogen.build_psy(scn)
    outcomes = apply_history(psy, ops, counters)
    if any(o[1].startswith("error") for o in outcomes):
        return {"status": "transformation-internal-error",
                "outcomes": outcomes}
    try:
        code = str(psy.gen)
    except GenerationError as err:
        return {"status": "generation-refused", "outcomes": outcomes,
                "why": str(err)[:120]}
    return {"status": "generated", "code": code, "outcomes": outcomes}


def simulate(scn, code, setup, cfg):
    """Execute the generated invoke; returns (events, info)."""
    lines = gosim.invoke_lines(code)
    stmts, _, _ = gosim.parse_block(lines, 0, [])
    stub = gosim.Stub(stub_fields(scn, setup["istop"], setup["jstop"]),
                      setup["istop"], setup["jstop"])
    prng = random.Random(cfg["cseed"])
    policy = cfg["policy"]

    def chooser(runnable):
        if policy == "forward":
            return runnable[0]
        if policy == "reverse":
            return runnable[-1]
        return runnable[prng.randrange(len(runnable))]
    kernels = {k["name"] + "_code" for k in scn["kernels"]}
    run = gosim.Run(stmts, stub, kernels, cfg["T"], chooser,
                    default_sched=tuple(cfg["default_sched"]))
    events = run.execute()
    return events, {"steps": run.steps, "trace": run.trace,
                    "switches": run.switches, "regions": run.regions,
                    "ws_loops": run.ws_loops, "sites": len(run.sites)}


def judge(scn, events, nsites, setup):
    """History checks over the recorded kernel calls."""
    ncalls = len(scn["calls"])
    if nsites != ncalls:
        return {"class": "number-of-kernel-call-sites-differs-from-invoke",
                "observed": {"sites": nsites, "calls": ncalls}}
    per_site = {}
    for seq, tid, site, name, i, j in events:
        want = scn["kernels"][scn["calls"][site]]["name"] + "_code"
        if name != want:
            return {"class": "call-site-calls-another-kernel",
                    "observed": {"site": site, "called": name,
                                 "invoke_has": want}}
        per_site.setdefault(site, []).append((i, j))
    for site in range(ncalls):
        region = expected_region(scn, site, setup["istop"], setup["jstop"])
        if region is None:
            continue
        want = sorted(points(region))
        got = sorted(per_site.get(site, []))
        if got != want:
            gset, wset = set(got), set(want)
            kern = scn["kernels"][scn["calls"][site]]
            kind = "kernel-called-more-than-once-for-a-point" \
                if len(got) != len(gset) and gset == wset else \
                "visited-points-differ-from-iteration-region"
            return {"class": kind, "observed": {
                "site": site, "kernel": kern["name"],
                "offset": kern["offset"],
                "iterates_over": kern["iterates_over"],
                "point_type": gogen.space_arg(kern)["pt"],
                "expected_region": list(region),
                "missing": sorted(wset - gset)[:4],
                "extra": sorted(gset - wset)[:4],
                "repeated": sorted({p for p in got if got.count(p) > 1})[:3],
                "calls": len(got), "expected_calls": len(want)}}
    last = {}
    for seq, tid, site, name, i, j in events:
        prev = last.get((i, j))
        if prev is not None and prev[0] > site:
            return {"class": "per-point-kernel-order-differs-from-invoke-"
                             "order",
                    "observed": {"point": [i, j], "site": site,
                                 "after_site": prev[0],
                                 "threads": [prev[1], tid]}}
        last[(i, j)] = (site, tid)
    return None


def gen_cfgs(rng, n):
    cfgs = [{"T": 1, "policy": "forward", "cseed": 0,
             "default_sched": ["static", None]}]
    for _ in range(n - 1):
        cfgs.append({"T": pick(rng, [2, 2, 3, 4]),
                     "policy": pick(rng, ["random", "random", "reverse",
                                          "forward"]),
                     "cseed": rng.randrange(1 << 30),
                     "default_sched": pick(rng, [["static", None],
                                                 ["dynamic", 1],
                                                 ["static", 1]])})
    return cfgs


def run_scenario(scn, ops, setup, cfgs, counters=None, digests=None):
    """Returns a violation dict (with 'stage') or None; raises Discard."""
    for stage, hist in (("no-transformation", []), ("after-history", ops)):
        if stage == "after-history" and not ops:
            break
        res = generate(scn, hist, counters if stage == "after-history"
                       else None)
        if counters is not None:
            counters.inc2("generation", stage + ":" + res["status"])
        if res["status"] != "generated":
            if stage == "no-transformation":
                raise gosim.Discard("baseline not generated: " +
                                    res.get("why", res["status"]))
            return None
        accepted = [o for o in res["outcomes"] if o[1] == "accepted"]
        for cfg in (cfgs if stage == "after-history" else cfgs[:1]):
            events, info = simulate(scn, res["code"], setup, cfg)
            if counters is not None:
                counters.inc("scheduler_steps", info["steps"])
                counters.inc("simulated_executions")
                counters.inc("kernel_calls_recorded", len(events))
                counters.inc("thread_switches", info["switches"])
                counters.inc2("probes", "parallel_region_executed",
                              info["regions"])
                counters.inc2("probes", "worksharing_loop_executed",
                              info["ws_loops"])
            bad = judge(scn, events, info["sites"], setup)
            if bad:
                bad = dict(bad, stage=stage, config=cfg,
                           outcomes=res["outcomes"], code=res["code"],
                           schedule=info["trace"])
                return bad
            if digests is not None and accepted:
                digests.append(digest([scn, res["outcomes"], cfg["T"],
                                       digest(info["trace"])]))
    return None


def shrink(scn, ops, setup, cfg, cls):
    def fails(s, o, st):
        try:
            bad = run_scenario(s, o, st, [cfg])
        except Exception:
            return None
        return bad if bad and bad["class"] == cls else None
    best = fails(scn, ops, setup)
    if best is None:
        return scn, ops, setup, None
    for key in ("istop", "jstop"):
        for val in (3, 4):
            if val < setup[key]:
                cand = dict(setup, **{key: val})
                got = fails(scn, ops, cand)
                if got:
                    setup, best = cand, got
                    break
    i = len(ops) - 1
    while i >= 0:
        cand = ops[:i] + ops[i + 1:]
        got = fails(scn, cand, setup)
        if got:
            ops, best = cand, got
        i -= 1
    # drop kernel calls (keeping kernel definitions that are still used)
    k = len(scn["calls"]) - 1
    while k >= 0 and len(scn["calls"]) > 1:
        cand = copy.deepcopy(scn)
        del cand["calls"][k]
        used = sorted(set(cand["calls"]))
        remap = {old: new for new, old in enumerate(used)}
        cand["kernels"] = [cand["kernels"][u] for u in used]
        cand["calls"] = [remap[c] for c in cand["calls"]]
        got = fails(cand, ops, setup)
        if got:
            scn, best = cand, got
        k -= 1
    for k in range(len(scn["spaces"]) - 1, -1, -1):
        cand = copy.deepcopy(scn)
        del cand["spaces"][k]
        got = fails(cand, ops, setup)
        if got:
            scn, best = cand, got
    for kern_i in range(len(scn["kernels"])):
        while len(scn["kernels"][kern_i]["args"]) > 1:
            cand = copy.deepcopy(scn)
            cand["kernels"][kern_i]["args"].pop()
            got = fails(cand, ops, setup)
            if not got:
                break
            scn, best = cand, got
    return scn, ops, setup, best


def features(scn, bad):
    obs = bad.get("observed", {})
    accepted = [o[0] for o in bad.get("outcomes", []) if o[1] == "accepted"]
    return {"stage": bad.get("stage"), "accepted": accepted,
            "kernel_offset": obs.get("offset"),
            "iterates_over": obs.get("iterates_over"),
            "point_type": obs.get("point_type"),
            "const_bounds": "const" in accepted}


def run_one(seed, index, tier):
    counters = Counters()
    rng_s = stream(seed, "scenario")
    rng_h = stream(seed, "history")
    rng_c = stream(seed, "schedule")
    scn = gogen.gen_scenario(rng_s)
    ops = gen_history(rng_h)
    setup = {"istop": rng_s.randint(3, 7), "jstop": rng_s.randint(3, 7)}
    cfgs = gen_cfgs(rng_c, 4 if tier == "thorough" else 3)
    out = {"counters": counters, "steps": 0, "violations": [],
           "digests": []}
    try:
        bad = run_scenario(scn, ops, setup, cfgs, counters, out["digests"])
    except gosim.Discard as err:
        counters.inc2("discarded", str(err)[:50])
        out["log_digest"] = digest(["discard", str(err)])
        return out
    except gosim.Fault as err:
        counters.inc2("discarded", "fault:" + str(err)[:40])
        out["log_digest"] = digest(["fault", str(err)])
        return out
    except Exception as err:
        counters.inc2("aborted_internal_error", type(err).__name__)
        out["log_digest"] = digest(["abort", type(err).__name__, str(err)])
        return out
    out["steps"] = counters.get("scheduler_steps", 0)
    if out["digests"]:
        out["digest"] = digest(sorted(out["digests"]))
    if bad:
        cls = bad["class"]
        pre = {"class": cls, "replay": {"features": features(scn, bad),
                                        "observed": bad["observed"]}}
        if runner.matches_open_known(sys.modules[__name__], pre):
            mscn, mops, msetup, best = scn, ops, setup, bad
        else:
            mscn, mops, msetup, best = shrink(scn, ops, setup,
                                              bad["config"], cls)
            if best is None:
                mscn, mops, msetup, best = scn, ops, setup, bad
        rep = {"property": PROPERTY, "engine": ENGINE, "engine_version": 1,
               "seed": seed, "run_index": index, "violation_class": cls,
               "scenario": {"gocean": mscn, "setup": msetup,
                            "algorithm": gogen.alg_text(mscn),
                            "iteration_spaces": [
                                ":".join([s["offset"], s["pt"], s["name"]] +
                                         s["bounds"])
                                for s in mscn["spaces"]],
                            "generated": best["code"]},
               "history": mops, "config": best["config"],
               "schedule": best["schedule"],
               "faults": "none (schedule and history dimensions)",
               "features": features(mscn, best),
               "observed": dict(best["observed"], stage=best["stage"],
                                outcomes=best["outcomes"])}
        out["violations"].append({"class": cls, "replay": rep})
    out["log_digest"] = digest([out["digests"], bad["class"] if bad
                                else None])
    if out.get("digest") and (index < 24 or index % 97 == 0):
        out["sample"] = {"kernels": [(k["offset"], k["iterates_over"],
                                      gogen.space_arg(k)["pt"])
                                     for k in scn["kernels"]],
                         "history": [o["t"] for o in ops],
                         "grid": [setup["istop"], setup["jstop"]]}
    return out


def replay(rep):
    scn = rep["scenario"]
    cfg = rep["config"]
    try:
        bad = run_scenario(scn["gocean"], rep["history"], scn["setup"],
                           [cfg])
    except (gosim.Discard, gosim.Fault):
        return None
    if not bad or bad["class"] != rep["violation_class"]:
        return None
    return {"class": bad["class"],
            "observed": dict(bad["observed"], stage=bad["stage"])}


def signature_match(sig, vio):
    if vio["class"] not in sig.get("classes", []):
        return False
    feats = vio["replay"].get("features", {})
    for key, want in sig.get("features", {}).items():
        if feats.get(key) != want:
            return False
    return True
