"""C09 - OpenMP-parallelised loops compute the serial result on any schedule.

Engine E3: seeded programs -> real PSyclone OpenMP transformations (no
force) -> lowered tree executed by the OpenMP simulator under seeded thread
schedules, thread counts, schedule kinds and pre-emption granularities,
against the serial execution of the untransformed program.  DESIGN 4.2.
"""
import copy

from simkit.core import stream, digest, pick, Counters, canon
from simkit import fgen, interp

PROPERTY = "C09"
ENGINE = "E3-ompsim"
LEVEL = "exploration"
RULE = ("Seeded Fortran routines (1-2 loop nests, depth<=3, subscripts from "
        "{i, i+-c, c*i, i/c, mod, n-i+1, idx(i), scalars, constants}, scalar "
        "temporaries written conditionally/unconditionally, if-blocks) -> "
        "real OMPParallelLoopTrans or OMPLoopTrans(do|paralleldo|"
        "teamsdistributeparalleldo, static|dynamic|guided|auto|runtime"
        "[,chunk], collapse)+OMPParallelTrans over a seeded statement range. "
        "Each accepted program is executed under 12 (quick) / 48 (thorough) "
        "simulated (T in 1..8, schedule policy, granularity) configurations. "
        "Non-trivial: transformation accepted and >=2 threads executed >=1 "
        "iteration each. Distinct by (program digest, T, schedule clause, "
        "granularity, thread-switch trace digest).")
REAL_VS_STUB = {
    "fparser2 front end, PSyIR, OMP*Trans validate/apply, dependence "
    "analysis, infer_sharing_attributes, lower_to_language_level, "
    "FortranWriter": "real code from /repo",
    "Fortran execution": "stub: simkit/interp.py PSyIR interpreter "
                         "(fidelity self-test against gfortran: "
                         "tools/selftest_interp_fidelity.py)",
    "OpenMP run time": "stub: simkit/interp.py OmpSim (team, worksharing "
                       "schedules, private=POISON, firstprivate, barriers), "
                       "seeded scheduler"}
ASSUMPTIONS = [
    "OpenMP semantics as in DESIGN Appendix A; data-sharing clauses are read "
    "from the directive line the writer emits.",
    "The parallel region ends the routine; comparison happens at region end "
    "over every array and every scalar not named in a private/firstprivate "
    "clause (loop variables excluded).",
    "Programs whose serial run goes out of bounds / divides by zero are "
    "discarded as generator errors.",
    "A parallel region contains worksharing loops only (each accepted by "
    "OMPLoopTrans); replicated execution of other statements placed in a "
    "region by OMPParallelTrans is the script author's responsibility and "
    "is not generated (the property speaks of loops the loop "
    "transformations accept and of the clauses inferred for them)."]

POLICIES = ["forward", "reverse", "round-robin", "random", "random",
            "reverse-iter"]


def plan(tier):
    if tier == "thorough":
        return {"runs": 120000, "slice": 400, "budget_s": 2400,
                "slice_timeout_s": 900}
    return {"runs": 4800, "slice": 100, "budget_s": 150,
            "slice_timeout_s": 600}


# --------------------------------------------------------------------------
def gen_trans(rng, prog):
    """Transformation recipe (JSON)."""
    kind = fgen.weighted(rng, [(4, "parallel-loop"), (5, "loop+parallel")])
    rec = {"kind": kind, "collapse": None}
    if rng.random() < 0.25:
        rec["collapse"] = pick(rng, [2, 2, 3])
    if prog.get("perfect3"):
        rec["collapse"] = pick(rng, [3, 3, 2, None])
    if prog.get("flow2"):
        # both loops in one parallel region
        rec.update({"kind": "loop+parallel", "directive": "do",
                    "schedule": pick(rng, ["static", "dynamic", "none"]),
                    "chunk": None, "region_start": 0, "collapse": None})
    if kind == "loop+parallel":
        rec["directive"] = fgen.weighted(rng, [(6, "do"), (2, "paralleldo"),
                                               (1, "teamsdistributeparalleldo"
                                                )])
        rec["schedule"] = pick(rng, ["static", "static", "dynamic", "guided",
                                     "auto", "runtime", "none"])
        rec["chunk"] = pick(rng, [None, None, 1, 2, 3])
        if rec["schedule"] in ("auto", "runtime", "none"):
            rec["chunk"] = None
        nstmts = len(prog["body"])
        rec["region_start"] = rng.randrange(nstmts)
    return rec


def make_chooser(policy, rng):
    """chooser(sim, runnable, last) -> tid"""
    state = {"rr": 0}

    def chooser(sim, runnable, last):
        if policy == "forward":
            return runnable[0]
        if policy == "reverse":
            return runnable[-1]
        if policy == "round-robin":
            state["rr"] += 1
            return runnable[state["rr"] % len(runnable)]
        if policy == "reverse-iter":
            # whole iterations, highest thread first, but let everybody
            # start: switch only when the running thread reaches an
            # iteration boundary
            cur = sim.trace[-1] if sim.trace else None
            if cur in runnable and last[cur][0] not in ("iter", "grab",
                                                        "blocked", "start"):
                return cur
            return runnable[-1] if rng.random() < 0.7 else \
                runnable[rng.randrange(len(runnable))]
        return runnable[rng.randrange(len(runnable))]
    return chooser


def replay_chooser(trace):
    state = {"i": 0, "diverged": False}

    def chooser(sim, runnable, last):
        i = state["i"]
        state["i"] += 1
        if i < len(trace) and trace[i] in runnable:
            return trace[i]
        state["diverged"] = True
        return runnable[0]
    chooser.state = state
    return chooser


# --------------------------------------------------------------------------
def build(prog, trans):
    """Real PSyclone: parse, transform, lower, write.
    Returns dict(status=..., ...)."""
    from psyclone.psyir.frontend.fortran import FortranReader
    from psyclone.psyir.backend.fortran import FortranWriter
    from psyclone.psyir.nodes import Routine, Loop
    from psyclone.psyir.transformations import (OMPLoopTrans,
                                                TransformationError)
    from psyclone.transformations import (OMPParallelLoopTrans,
                                          OMPParallelTrans)
    text = fgen.program_text(prog)
    reader = FortranReader()
    orig = reader.psyir_from_source(text)
    work = reader.psyir_from_source(text)
    routine = work.walk(Routine)[0]
    target = routine.children[-1]
    if not isinstance(target, Loop):
        return {"status": "no-loop", "text": text}
    opts = {}
    if trans.get("collapse"):
        opts["collapse"] = trans["collapse"]
    try:
        if trans["kind"] == "parallel-loop":
            OMPParallelLoopTrans().apply(target, opts)
        else:
            sched = trans["schedule"]
            if trans.get("chunk") and sched in ("static", "dynamic",
                                                "guided"):
                sched = f"{sched},{trans['chunk']}"
            ltrans = OMPLoopTrans(omp_directive=trans["directive"],
                                  omp_schedule=sched)
            ltrans.apply(target, opts)
            if trans["directive"] == "do":
                # The region holds worksharing loops only: the target and
                # the directly preceding top-level loops that the loop
                # transformation also accepts (see ASSUMPTIONS).
                start = len(routine.children) - 1
                want = min(trans["region_start"], start)
                while start > want:
                    prev = routine.children[start - 1]
                    if not isinstance(prev, Loop):
                        break
                    try:
                        OMPLoopTrans(omp_directive="do",
                                     omp_schedule=sched).apply(prev)
                    except TransformationError:
                        break
                    start -= 1
                OMPParallelTrans().apply(routine.children[start:])
    except TransformationError as err:
        return {"status": "refused", "text": text,
                "reason": str(err.value)[:200]}
    low = work.copy()
    low.lower_to_language_level()
    out_text = FortranWriter()(low)
    clauses = interp.directive_clauses(low, out_text)
    return {"status": "accepted", "text": text, "out_text": out_text,
            "orig": orig, "lowered": low, "clauses": clauses}


def excluded_scalars(clauses):
    names = set(fgen.LOOP_VARS)
    for cl in clauses.values():
        names |= set(cl["private"]) | set(cl["firstprivate"])
    return names


def serial_reference(built, inputs):
    from psyclone.psyir.nodes import Routine
    store = interp.make_store(inputs)
    routine = built["orig"].walk(Routine)[0]
    interp.run_serial(routine.children, store)
    return store


def parallel_run(built, inputs, cfg, chooser):
    from psyclone.psyir.nodes import Routine
    store = interp.make_store(inputs)
    routine = built["lowered"].walk(Routine)[0]
    sim = interp.OmpSim(cfg["T"], built["clauses"], chooser,
                        default_sched=tuple(cfg["default_sched"]))
    ctx = interp.Ctx(gran=cfg["gran"], omp=sim)
    env = interp.Env(store)
    fault = None
    try:
        for _ in interp.exec_block(routine.children, env, ctx):
            pass
    except interp._Return:
        pass
    except interp.RuntimeFault as err:
        fault = (err.kind, repr(err.detail))
    return store, sim, fault, ctx.steps


def compare(ref, got, excluded):
    diffs = []
    for name in sorted(ref):
        if name in excluded:
            continue
        a, b = ref[name], got[name]
        if isinstance(a, interp.Arr):
            bad = [i for i, (x, y) in enumerate(zip(a.data, b.data))
                   if repr(x) != repr(y)]
            if bad:
                diffs.append((name, "array", len(bad), bad[0],
                              repr(a.data[bad[0]]), repr(b.data[bad[0]])))
        elif repr(a) != repr(b):
            diffs.append((name, "scalar", 1, None, repr(a), repr(b)))
    return diffs


def judge_one(built, inputs, ref, cfg, chooser):
    """Returns (violation-or-None, info)."""
    store, sim, fault, steps = parallel_run(built, inputs, cfg, chooser)
    info = {"trace": list(sim.trace), "switches": sim.switches,
            "threads_with_iters": len(sim.threads_ran_iters),
            "steps": steps}
    excluded = excluded_scalars(built["clauses"])
    vios = []
    if fault is not None:
        if fault[0] == "step-cap":
            return [], dict(info, discarded="step-cap")
        vios.append({"class": "parallel-only-fault:" + fault[0],
                     "observed": {"fault": fault}})
        return vios, info
    if sim.poison_events:
        vios.append({"class":
                     "undefined-private-value-reached-shared-memory",
                     "observed": {"events": sim.poison_events[:3]}})
    diffs = compare(ref, store, excluded)
    for kind in ("array", "scalar"):
        sel = [d for d in diffs if d[1] == kind]
        if sel:
            vios.append({"class": f"shared-{kind}-differs-from-serial",
                         "observed": {"diffs": sel[:4]}})
    return vios, info


def gen_cfgs(rng, nconf):
    cfgs = []
    for k in range(nconf):
        cfgs.append({"T": pick(rng, [2, 2, 3, 3, 4, 5, 8, 1]),
                     "policy": POLICIES[k % len(POLICIES)],
                     "gran": pick(rng, ["iter", "iter", "stmt", "access"]),
                     "default_sched": pick(rng, [["static", None],
                                                 ["static", 1],
                                                 ["dynamic", 1],
                                                 ["guided", None],
                                                 ["dynamic", 2]]),
                     "cseed": rng.randrange(1 << 30)})
    return cfgs


# --------------------------------------------------------------------------
# program features (root-cause signatures)
# --------------------------------------------------------------------------
def _walk_exprs(e, out):
    if isinstance(e, dict):
        if "k" in e and e["k"] in ("bin", "aref", "call", "ref", "lit"):
            out.append(e)
        for v in e.values():
            _walk_exprs(v, out)
    elif isinstance(e, list):
        for x in e:
            _walk_exprs(x, out)


def features(prog, clauses):
    """Structural features of the (minimised) program's loop nests."""
    loop = {"k": "do", "body": [st for st in prog["body"]
                                if st["k"] == "do"]}
    feats = {"div_or_mod_subscript": False, "idx_subscript": False,
             "cond_first_write_privatised": [], "shared_scalar_written": [],
             "scalar_subscript": False}
    priv = set()
    fpriv = set()
    for cl in clauses.values():
        priv |= set(cl["private"])
        fpriv |= set(cl["firstprivate"])
    exprs = []
    _walk_exprs(loop, exprs)
    for e in exprs:
        if e["k"] == "aref":
            sub = []
            _walk_exprs(e["s"], sub)
            for s in sub:
                # (KF-C08-2/KF-C09-2 are about dividing the *loop
                # variable*; a division of a loop-invariant scalar is a
                # different matter and must not be absorbed by them)
                if (s["k"] == "bin" and s["op"] == "/") or \
                        (s["k"] == "call" and s["f"] == "mod"):
                    inner = []
                    _walk_exprs([s.get("a"), s.get("b")]
                                if s["k"] == "bin" else s["a"], inner)
                    if any(x["k"] == "ref" and x["n"] in fgen.LOOP_VARS
                           for x in inner):
                        feats["div_or_mod_subscript"] = True
                if s["k"] == "aref" and s["n"] in fgen.INT_ARRAYS:
                    feats["idx_subscript"] = True
                if s["k"] == "ref" and s["n"] in fgen.INT_SCALARS:
                    feats["scalar_subscript"] = True
    first_write = {}

    def scan(stmts, under_if):
        for st in stmts:
            if st["k"] == "assign" and st["lhs"]["k"] == "ref":
                first_write.setdefault(st["lhs"]["n"], under_if)
            elif st["k"] == "if":
                scan(st["then"], True)
                scan(st.get("else", []), True)
            elif st["k"] == "do":
                scan(st["body"], under_if)
    scan(loop["body"], False)
    for name, under_if in sorted(first_write.items()):
        if under_if and (name in fpriv or name in priv):
            feats["cond_first_write_privatised"].append(name)
        if name not in priv and name not in fpriv:
            feats["shared_scalar_written"].append(name)
    # a privatised scalar set in one top-level loop and read in a later one
    feats["cross_loop_private_flow"] = []
    tops = [st for st in prog["body"] if st["k"] == "do"]

    def writes_reads(stmts, written, acc):
        """acc: names read before an unconditional write in this body."""
        for st in stmts:
            if st["k"] == "assign":
                ex = []
                _walk_exprs(st["rhs"], ex)
                if st["lhs"]["k"] == "aref":
                    _walk_exprs(st["lhs"]["s"], ex)
                for e in ex:
                    if e["k"] == "ref" and e["n"] not in written:
                        acc.add(e["n"])
                if st["lhs"]["k"] == "ref":
                    written.add(st["lhs"]["n"])
            elif st["k"] == "if":
                ex = []
                _walk_exprs(st["cond"], ex)
                for e in ex:
                    if e["k"] == "ref" and e["n"] not in written:
                        acc.add(e["n"])
                writes_reads(st["then"], set(written), acc)
                writes_reads(st.get("else", []), set(written), acc)
            elif st["k"] == "do":
                writes_reads(st["body"], set(written), acc)
    written_before = set()
    for lp in tops:
        acc = set()
        writes_reads(lp["body"], set(), acc)
        for name in sorted(acc & written_before & (priv | fpriv)):
            if name not in feats["cross_loop_private_flow"]:
                feats["cross_loop_private_flow"].append(name)
        w = {}

        def collect(stmts):
            for st in stmts:
                if st["k"] == "assign" and st["lhs"]["k"] == "ref":
                    w[st["lhs"]["n"]] = True
                elif st["k"] == "if":
                    collect(st["then"])
                    collect(st.get("else", []))
                elif st["k"] == "do":
                    collect(st["body"])
        collect(lp["body"])
        written_before |= set(w)
    return feats


# --------------------------------------------------------------------------
# minimisation
# --------------------------------------------------------------------------
def _stmt_lists(prog):
    """All (list, index) positions of statements, innermost last."""
    out = []

    def rec(lst):
        for i, st in enumerate(lst):
            out.append((lst, i))
            if st["k"] == "do":
                rec(st["body"])
            elif st["k"] == "if":
                rec(st["then"])
                rec(st.get("else", []))
    rec(prog["body"])
    return out


def _candidates(prog):
    """Yield smaller programs."""
    positions = _stmt_lists(prog)
    for k in range(len(positions) - 1, -1, -1):
        cand = copy.deepcopy(prog)
        lst, i = _stmt_lists(cand)[k]
        st = lst[i]
        if lst is cand["body"] and i == len(lst) - 1:
            pass    # never delete the target loop itself
        else:
            del lst[i]
            yield cand
            cand = copy.deepcopy(prog)
            lst, i = _stmt_lists(cand)[k]
            st = lst[i]
        if st["k"] == "if":
            lst[i:i + 1] = st["then"]
            yield cand
        elif st["k"] == "do" and not (lst is cand["body"] and
                                      i == len(lst) - 1):
            pass
    # expressions: replace a binary operation / call by an operand
    cand0 = copy.deepcopy(prog)
    exprs = []
    _walk_exprs(cand0, exprs)
    for k, e in enumerate(exprs):
        if e["k"] == "bin":
            for side in ("a", "b"):
                cand = copy.deepcopy(prog)
                ex = []
                _walk_exprs(cand, ex)
                tgt = ex[k]
                repl = tgt[side]
                if tgt["op"] in (">", "<", "=="):
                    continue
                tgt.clear()
                tgt.update(repl)
                yield cand
        elif e["k"] == "call" and e["f"] in ("abs", "max", "min"):
            cand = copy.deepcopy(prog)
            ex = []
            _walk_exprs(cand, ex)
            tgt = ex[k]
            repl = tgt["a"][0]
            tgt.clear()
            tgt.update(repl)
            yield cand


def fails_with(prog, trans, inputs, cfg, cls, trace=None):
    try:
        built = build(prog, trans)
        if built["status"] != "accepted":
            return None
        ref = serial_reference(built, inputs)
    except (interp.Unsupported, interp.RuntimeFault, Exception):
        return None
    import random
    if trace is not None:
        chooser = replay_chooser(trace)
    else:
        chooser = make_chooser(cfg["policy"], random.Random(cfg["cseed"]))
    try:
        vios, info = judge_one(built, inputs, ref, cfg, chooser)
    except interp.Unsupported:
        return None
    for vio in vios:
        if vio["class"] == cls:
            return vio, info, built
    return None


def minimise(prog, trans, inputs, cfg, cls):
    best = fails_with(prog, trans, inputs, cfg, cls)
    if best is None:
        return prog, trans, inputs, cfg, None
    # smaller n, fewer threads
    for n in (2, 3, 4):
        if n < inputs["n"]:
            cand = dict(inputs, n=n)
            got = fails_with(prog, trans, cand, cfg, cls)
            if got:
                inputs, best = cand, got
                break
    for T in (2, 3):
        if T < cfg["T"]:
            cand = dict(cfg, T=T)
            got = fails_with(prog, trans, inputs, cand, cls)
            if got:
                cfg, best = cand, got
                break
    for gran in ("iter", "stmt"):
        if cfg["gran"] != gran:
            cand = dict(cfg, gran=gran)
            got = fails_with(prog, trans, inputs, cand, cls)
            if got:
                cfg, best = cand, got
                break
    if trans.get("collapse"):
        cand = dict(trans, collapse=None)
        got = fails_with(prog, cand, inputs, cfg, cls)
        if got:
            trans, best = cand, got
    progress = True
    rounds = 0
    while progress and rounds < 40:
        progress = False
        rounds += 1
        for cand in _candidates(prog):
            ctr = trans
            if trans.get("region_start") is not None:
                ctr = dict(trans, region_start=min(
                    trans["region_start"], len(cand["body"]) - 1))
            got = fails_with(cand, ctr, inputs, cfg, cls)
            if got:
                prog, trans, best = cand, ctr, got
                progress = True
                break
    return prog, trans, inputs, cfg, best


# --------------------------------------------------------------------------
def run_one(seed, index, tier):
    counters = Counters()
    rng_p = stream(seed, "program")
    rng_t = stream(seed, "history")
    rng_i = stream(seed, "inputs")
    rng_s = stream(seed, "schedule")
    prog = fgen.gen_program(rng_p)
    trans = gen_trans(rng_t, prog)
    inputs = fgen.gen_inputs(rng_i)
    out = {"counters": counters, "steps": 0, "violations": [],
           "digests": []}
    log = []
    try:
        built = build(prog, trans)
    except Exception as err:       # PSyclone internal error: not a C09 matter
        counters.inc2("aborted_internal_error", type(err).__name__)
        out["log_digest"] = digest(["abort", type(err).__name__])
        return out
    counters.inc2("outcomes", built["status"])
    counters.inc2("transformations", trans["kind"] + (
        ":" + trans.get("directive", "") if trans["kind"] != "parallel-loop"
        else ""))
    if built["status"] != "accepted":
        if built["status"] == "refused":
            counters.inc2("refusal_reasons", built["reason"][:60])
        out["log_digest"] = digest([built["status"]])
        return out
    try:
        ref = serial_reference(built, inputs)
    except interp.RuntimeFault as err:
        counters.inc2("discarded", "serial-" + err.kind)
        out["log_digest"] = digest(["serial-fault", err.kind])
        return out
    except interp.Unsupported as err:
        counters.inc2("discarded", "unsupported")
        out["log_digest"] = digest(["unsupported", str(err)])
        return out
    nconf = 48 if tier == "thorough" else 12
    import random
    seen_cls = set()
    for cfg in gen_cfgs(rng_s, nconf):
        chooser = make_chooser(cfg["policy"], random.Random(cfg["cseed"]))
        try:
            vios, info = judge_one(built, inputs, ref, cfg, chooser)
        except interp.Unsupported as err:
            counters.inc2("discarded", "unsupported-parallel")
            log.append(("unsupported", str(err)))
            break
        out["steps"] += info["steps"]
        counters.inc("simulated_executions")
        counters.inc("thread_switches", info["switches"])
        # the injected fault: every private copy starts undefined
        npriv = sum(len(c["private"]) for c in built["clauses"].values())
        counters.inc2("faults_fired", "private-storage-allocated-undefined",
                      npriv * cfg["T"])
        counters.inc2("faults_fired", "schedule:" + cfg["policy"])
        log.append((cfg["T"], cfg["policy"], cfg["gran"],
                    digest(info["trace"]), [v["class"] for v in vios]))
        if info["threads_with_iters"] >= 2:
            out["digests"].append(digest([
                prog, trans, cfg["T"], cfg["gran"], cfg["default_sched"],
                digest(info["trace"])]))
        for vio in vios:
            if vio["class"] in seen_cls:
                continue
            seen_cls.add(vio["class"])
            mprog, mtrans, minputs, mcfg, best = minimise(
                prog, trans, inputs, cfg, vio["class"])
            if best is None:
                best = (vio, info, built)
                mprog, mtrans, minputs, mcfg = prog, trans, inputs, cfg
            bvio, binfo, bbuilt = best
            feats = features(mprog, bbuilt["clauses"])
            out["violations"].append({
                "class": vio["class"],
                "replay": {
                    "property": PROPERTY, "engine": ENGINE,
                    "engine_version": 1, "seed": seed, "run_index": index,
                    "violation_class": vio["class"],
                    "scenario": {"program": mprog, "transformation": mtrans,
                                 "inputs_n": minputs["n"], "inputs": minputs,
                                 "config": mcfg,
                                 "fortran": fgen.program_text(mprog),
                                 "generated": bbuilt["out_text"]},
                    "schedule": binfo["trace"],
                    "faults": "private storage allocated POISONED",
                    "features": feats,
                    "observed": bvio["observed"]}})
    out["log_digest"] = digest(log)
    if out["digests"]:
        # one case per program; the per-configuration executions are
        # counted separately as sub-cases
        out["digest"] = digest(sorted(out["digests"]))
    if out["digests"] and (index < 40 or index % 199 == 0):
        out["sample"] = {"fortran": built["text"],
                         "directives": sorted(c["text"] for c in
                                              built["clauses"].values()),
                         "n": inputs["n"],
                         "configs": [(l[0], l[1], l[2]) for l in log[:4]]}
    return out


def replay(rep):
    scn = rep["scenario"]
    got = fails_with(scn["program"], scn["transformation"], scn["inputs"],
                     scn["config"], rep["violation_class"],
                     trace=rep["schedule"])
    if got is None:
        return None
    return {"class": got[0]["class"], "observed": got[0]["observed"]}


def signature_match(sig, vio):
    """Known findings are keyed on root-cause features of the *minimised*
    program (see DESIGN 4.2), not on the violation class alone."""
    if vio["class"] not in sig.get("classes", []):
        return False
    feats = vio["replay"].get("features", {})
    need = sig.get("feature")
    if need == "shared_scalar_written":
        diffs = vio["replay"]["observed"].get("diffs", [])
        names = {d[0] for d in diffs}
        return bool(names) and names <= set(feats.get("shared_scalar_written",
                                                      []))
    return bool(feats.get(need))
