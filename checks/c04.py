"""C04 - generated code declares every entity it uses, in a valid order.

Engine E4: seeded histories biased to symbol-creating transformations on
generated modules; after every accepted step the written code must compile
with implicit typing disabled as far as declarations are concerned, every
Reference must resolve (by scoped lookup) to the symbol it holds, and the
declaration part must declare each name once and before it is used by
another declaration.  DESIGN 4.9.  (No scheduler: the dimension explored is
the history; said so in the manifest.)
"""
import re

from simkit.core import stream, digest, pick, Counters
from simkit import richgen, gfcheck, histmachine as hm
from checks import c26

PROPERTY = "C04"
ENGINE = "E4-transhistory"
LEVEL = "exploration"
RULE = ("Seeded modules (richgen: kind parameter wp, array bounds depending "
        "on n, helper routine whose locals clash with the caller's names; "
        "'kinds' variant: kind constants also in a module the helper imports, "
        "PARAMETER arrays and constants depending on other constants) x "
        "histories of <=7 operations biased to symbol-creating "
        "transformations (ChunkLoop, LoopTiling2D, HoistLoopBoundExpr, "
        "HoistLocalArrays, InlineTrans, ArrayAssignment2Loops, "
        "Reference2ArrayRange, Sum/Product/Maxval/Minval2Loop, Matmul2Code, "
        "DotProduct2Code, Abs/Sign/Min/Max2Code, ReplaceInductionVariables, "
        "LoopSwap, LoopFuse). Oracle (scoped-lookup identity of every "
        "Reference and of every kind/bound/initial-value/kind-suffix link of "
        "a declaration, declaration scan, gfortran) after every accepted "
        "step and for the "
        "length-0 history. Non-trivial: >=1 accepted symbol-creating "
        "transformation. Distinct by (program digest, history pattern).")
REAL_VS_STUB = {
    "fparser2 front end, PSyIR, transformations, symbol tables, "
    "FortranWriter": "real code from /repo",
    "compiler": "real gfortran 12 -fsyntax-only (implicit none is in the "
                "generated module) as a validity oracle",
    "scheduler/clock": "none; the only fault is a refusal"}
ASSUMPTIONS = [
    "Only compiler errors of the declaration family count (no IMPLICIT "
    "type, duplicate/conflicting declaration, used before typed, "
    "non-constant in specification expression).",
    "Programs are self-contained: the only module used (kinds_mod, 'kinds' "
    "variant) is in the same file, so the compiler can resolve everything.",
    "Two symbol objects imported from the same-named container under the "
    "same original name denote the same entity (merge may keep either)."]

CREATORS = ["ChunkLoopTrans", "LoopTiling2DTrans", "HoistLoopBoundExprTrans",
            "HoistLocalArraysTrans", "InlineTrans", "InlineTrans",
            "ArrayAssignment2LoopsTrans", "ArrayAssignment2LoopsTrans",
            "Reference2ArrayRangeTrans", "Sum2LoopTrans", "Product2LoopTrans",
            "Maxval2LoopTrans", "Minval2LoopTrans", "Matmul2CodeTrans",
            "DotProduct2CodeTrans", "Abs2CodeTrans", "Sign2CodeTrans",
            "Min2CodeTrans", "Max2CodeTrans",
            "ReplaceInductionVariablesTrans", "LoopSwapTrans",
            "LoopFuseTrans", "ArrayAccess2LoopTrans",
            "AllArrayAccess2LoopTrans", "HoistTrans",
            "FoldConditionalReturnExpressionsTrans"]


def plan(tier):
    if tier == "thorough":
        return {"runs": 40000, "slice": 50, "budget_s": 2400,
                "slice_timeout_s": 1200}
    return {"runs": 640, "slice": 16, "budget_s": 150,
            "slice_timeout_s": 900}


def _declared_symbols(node):
    """Identity set of every symbol the written routine will declare or
    see: all scopes inside the enclosing Routine (the writer flattens inner
    scopes into the routine, renaming clashes - references hold the symbol
    object, so they follow) plus the enclosing container/file scopes."""
    from psyclone.psyir.nodes import Routine, ScopingNode
    top = node.ancestor(Routine, include_self=True)
    out = set()
    if top is not None:
        for scope in top.walk(ScopingNode):
            out.update(id(s) for s in scope.symbol_table.symbols)
        cur = top.parent
    else:
        cur = node
    while cur is not None:
        if isinstance(cur, ScopingNode):
            out.update(id(s) for s in cur.symbol_table.symbols)
        cur = cur.parent
    return out


def check_bindings(root):
    """Every Reference must hold a symbol that the written routine declares
    (in any of its scopes) or sees in an enclosing scope.  A reference to a
    symbol that is in none of them is written by *name* only: if that name
    resolves to another symbol it has been captured, otherwise it is
    undeclared."""
    from psyclone.psyir.nodes import Reference, Routine
    cache = {}
    for ref in root.walk(Reference):
        sym = ref.symbol
        if type(sym).__name__ in ("IntrinsicSymbol",):
            continue
        top = ref.ancestor(Routine)
        key = id(top)
        if key not in cache:
            cache[key] = _declared_symbols(ref)
        if id(sym) in cache[key]:
            continue
        try:
            scope = ref.scope
            found = scope.symbol_table.lookup(sym.name)
        except KeyError:
            if type(sym).__name__ == "RoutineSymbol":
                # routine symbols of calls may legitimately be nowhere
                continue
            return ("reference-to-symbol-not-in-scope",
                    {"name": sym.name, "kind": type(sym).__name__})
        except Exception:
            continue
        if found is not sym and not _same_import(found, sym):
            return ("reference-captured-by-another-symbol",
                    {"name": sym.name})
    return check_declaration_links(root)


def _same_import(one, two):
    """Two symbol objects that denote the same entity: both imported from
    the same-named container under the same original name (merging tables
    may keep either object)."""
    i1, i2 = getattr(one, "interface", None), getattr(two, "interface", None)
    c1 = getattr(i1, "container_symbol", None)
    c2 = getattr(i2, "container_symbol", None)
    if c1 is None or c2 is None:
        return False
    o1 = getattr(i1, "orig_name", None) or one.name
    o2 = getattr(i2, "orig_name", None) or two.name
    return c1.name.lower() == c2.name.lower() and o1.lower() == o2.lower()


def check_declaration_links(root):
    """The names a *declaration* uses (kind parameter, array bounds, initial
    value, kind suffix of a literal) must resolve, from the table that holds
    the declaration, to the very symbols the declaration is linked to."""
    from psyclone.psyir.nodes import (ScopingNode, Reference, Literal, Node)
    from psyclone.psyir.symbols import DataSymbol, Symbol

    def resolves(table, sym, what, owner):
        if id(sym) in declared.setdefault(
                id(table), _declared_symbols(table.node)):
            return None
        try:
            found = table.lookup(sym.name)
        except KeyError:
            return ("declaration-uses-symbol-not-in-scope",
                    {"name": sym.name, "used_by": owner, "as": what})
        if found is not sym and not _same_import(found, sym):
            return ("declaration-captured-by-another-symbol",
                    {"name": sym.name, "used_by": owner, "as": what})
        return None

    def scan_expr(table, expr, what, owner):
        for node in expr.walk((Reference, Literal)):
            if isinstance(node, Reference):
                if type(node.symbol).__name__ == "IntrinsicSymbol":
                    continue
                bad = resolves(table, node.symbol, what, owner)
            else:
                prec = getattr(node.datatype, "precision", None)
                if not isinstance(prec, Symbol):
                    continue
                bad = resolves(table, prec, what + "-kind-suffix", owner)
            if bad:
                return bad
        return None

    declared = {}
    for scope in root.walk(ScopingNode):
        table = scope.symbol_table
        for sym in table.symbols:
            if not isinstance(sym, DataSymbol):
                continue
            dtype = sym.datatype
            prec = getattr(dtype, "precision", None)
            if isinstance(prec, Symbol):
                bad = resolves(table, prec, "kind", sym.name)
                if bad:
                    return bad
            for dim in getattr(dtype, "shape", None) or []:
                for bound in (getattr(dim, "lower", None),
                              getattr(dim, "upper", None)):
                    if isinstance(bound, Node):
                        bad = scan_expr(table, bound, "array-bound",
                                        sym.name)
                        if bad:
                            return bad
            if sym.initial_value is not None:
                bad = scan_expr(table, sym.initial_value, "initial-value",
                                sym.name)
                if bad:
                    return bad
    # kind suffixes of literals in the executable part
    for lit in root.walk(Literal):
        prec = getattr(lit.datatype, "precision", None)
        if isinstance(prec, Symbol):
            try:
                table = lit.scope.symbol_table
            except Exception:
                continue
            bad = resolves(table, prec, "literal-kind-suffix", "statement")
            if bad:
                return bad
    return None


def _home(ref):
    """Where the symbol a Reference holds is declared, as seen from the
    written program: in the routine (any of its scopes), in the enclosing
    module, imported, or nowhere."""
    from psyclone.psyir.nodes import Routine, ScopingNode
    sym = ref.symbol
    if type(sym).__name__ == "IntrinsicSymbol":
        return None
    top = ref.ancestor(Routine)
    if top is None:
        return None
    for scope in top.walk(ScopingNode):
        if any(s is sym for s in scope.symbol_table.symbols):
            if getattr(sym, "is_import", False):
                return "import"
            if getattr(sym, "is_unresolved", False):
                return "unresolved"
            return "routine"
    cur = top.parent
    while cur is not None:
        if isinstance(cur, ScopingNode) and any(
                s is sym for s in cur.symbol_table.symbols):
            if getattr(sym, "is_import", False):
                return "import"
            return "module"
        cur = cur.parent
    return "nowhere"


def check_reread(root, text):
    """The written text, read back by the real front end, must bind every
    reference at the same level as the tree it was written from: a
    reference to a module variable must not have become a reference to a
    routine-local entity (capture by a renamed or hoisted symbol), nor the
    reverse.  Compared routine by routine, reference by reference in walk
    order; only done when both walks have the same length."""
    from psyclone.psyir.frontend.fortran import FortranReader
    from psyclone.psyir.nodes import Routine, Reference
    if "modvars" not in _reread_state:
        return None
    try:
        again = FortranReader().psyir_from_source(text)
    except Exception:
        return None
    for rt in root.walk(Routine):
        twins = [r for r in again.walk(Routine) if r.name == rt.name]
        if len(twins) != 1:
            continue
        refs_a = [r for r in rt.walk(Reference)
                  if type(r.symbol).__name__ not in ("IntrinsicSymbol",
                                                     "RoutineSymbol")]
        refs_b = [r for r in twins[0].walk(Reference)
                  if type(r.symbol).__name__ not in ("IntrinsicSymbol",
                                                     "RoutineSymbol")]
        if len(refs_a) != len(refs_b):
            continue
        for ra, rb in zip(refs_a, refs_b):
            ha, hb = _home(ra), _home(rb)
            if ha in ("module", "routine") and hb in ("module", "routine") \
                    and ha != hb:
                return ("written-reference-binds-at-another-level",
                        {"name_in_tree": ra.symbol.name,
                         "name_in_text": rb.symbol.name,
                         "tree": ha, "text": hb, "routine": rt.name})
    return None


# set by run_history for programs of the "modvars" variant: the re-read
# costs a parse per step and only matters when module variables exist
_reread_state = set()


DECL = re.compile(r"(?i)^\s*(integer|real|double precision|logical|"
                  r"character|type\s*\(|complex)[^:]*::\s*(.*)$")


def scan_declarations(text):
    """Own scan of each program unit's specification part: a name is
    declared at most once."""
    unit = None
    seen = {}
    for ln in text.split("\n"):
        low = ln.strip().lower()
        m = re.match(r"(subroutine|function)\s+(\w+)", low)
        if m and not low.startswith("end"):
            unit = m.group(2)
            seen = {}
            continue
        if low.startswith("end subroutine") or low.startswith(
                "end function"):
            unit = None
            continue
        if unit is None:
            continue
        d = DECL.match(ln)
        if d:
            names = re.split(r",(?![^()]*\))", d.group(2))
            for nm in names:
                nm = nm.strip().split("=")[0].split("(")[0].strip().lower()
                if not nm:
                    continue
                if nm in seen:
                    return ("name-declared-twice", {"unit": unit,
                                                    "name": nm})
                seen[nm] = True
    return None


def judge(root):
    from psyclone.psyir.backend.fortran import FortranWriter
    from psyclone.errors import GenerationError
    from psyclone.psyir.backend.visitor import VisitorError
    bad = check_bindings(root)
    if bad:
        return {"class": bad[0], "observed": {"detail": bad[1]}}, "checked"
    try:
        text = FortranWriter()(root)
    except (GenerationError, VisitorError):
        return None, "writer-refused"
    except Exception as err:
        return None, "writer-other-exception:" + type(err).__name__
    bad = scan_declarations(text)
    if bad:
        return {"class": bad[0], "observed": {"detail": bad[1],
                                              "text": text}}, "text"
    bad = check_reread(root, text)
    if bad:
        return {"class": bad[0], "observed": {"detail": bad[1],
                                              "text": text}}, "text"
    errs, _ = gfcheck.compile_text(text, [])
    derrs = [e for e in errs if gfcheck.is_declaration_error(e)]
    if derrs:
        return {"class": "compiler-rejects-declarations",
                "observed": {"error": derrs[0][0], "line": derrs[0][1],
                             "all": [e[0] for e in derrs[:4]],
                             "text": text}}, "text"
    return None, "text" if not errs else "text-other-compile-error"


def run_history(prog, ops, counters=None, log=None):
    _reread_state.clear()
    if prog.get("modvars"):
        _reread_state.add("modvars")
    root = c26.parse(prog)
    cl = c26.classes()
    accepted = 0
    pattern = []
    vio, status = judge(root)      # the length-0 history
    if counters is not None:
        counters.inc2("writer", status.split(":")[0])
    if vio is not None:
        return dict(vio, step=-1, accepted=0, pattern=[])
    for step, op in enumerate(ops):
        res = hm.apply_op(root, op, cl)
        st = res["status"]
        if counters is not None:
            counters.inc2("outcomes", st)
            if st == "accepted":
                counters.inc2("accepted_by_class", op["cls"])
        pattern.append((op["cls"], res["desc"]["target"],
                        res["desc"]["opts"], st))
        if st == "other-exception":
            if counters is not None:
                counters.inc2("aborted_internal_error", op["cls"] + ":" +
                              res["err"].split(":")[0])
            break
        if st != "accepted":
            if st == "refused" and counters is not None:
                counters.inc2("faults_fired", "refusal")
            continue
        accepted += 1
        try:
            vio, status = judge(root)
        except Exception as err:
            if counters is not None:
                counters.inc2("aborted_internal_error",
                              "judge:" + type(err).__name__)
            break
        if counters is not None:
            counters.inc2("writer", status.split(":")[0])
        if log is not None:
            log.append((op["cls"], st, status))
        if vio is not None:
            return dict(vio, step=step, accepted=accepted, pattern=pattern)
    return {"class": None, "accepted": accepted, "pattern": pattern}


REPEATABLE = ["Abs2CodeTrans", "Sign2CodeTrans", "Min2CodeTrans",
              "Max2CodeTrans", "ChunkLoopTrans", "Sum2LoopTrans",
              "Maxval2LoopTrans", "ArrayAssignment2LoopsTrans",
              "HoistLoopBoundExprTrans"]


def gen_history(rng, prog=None):
    ops = []
    for _ in range(rng.randint(2, 7)):
        op = hm.gen_op(rng, [pick(rng, CREATORS)])
        op["opt"] = pick(rng, [len(hm.OPTIONS), len(hm.OPTIONS), 8, 9, 21,
                               19, 2])
        ops.append(op)
    modvars = bool(prog and prog.get("modvars"))
    if rng.random() < (0.8 if modvars else 0.4):
        # the same symbol-creating transformation applied to several
        # targets (different loop bodies): its temporaries get the same
        # base name in different inner scopes and clash when the routine
        # is written
        cls = pick(rng, REPEATABLE[:5] if modvars else REPEATABLE)
        rep = []
        for _ in range(rng.randint(2, 4)):
            op = hm.gen_op(rng, [cls])
            op["opt"] = len(hm.OPTIONS)
            op["pref"] = True
            rep.append(op)
        ops = rep + ops[:3]
    return ops


def features(rep):
    obs = rep.get("observed") or {}
    return {"classes": sorted({o["cls"] for o in rep["schedule"]}),
            "error": re.sub(r"[‘’'].*?[‘’']", "X",
                            obs.get("error", ""))[:80]}


def harvest_key(vio):
    f = vio["replay"].get("features", {})
    return f.get("error", "") + "|" + "+".join(f.get("classes", []))


def run_one(seed, index, tier):
    counters = Counters()
    rng_p = stream(seed, "program")
    rng_h = stream(seed, "history")
    prog = richgen.gen_program(rng_p)
    ops = gen_history(rng_h, prog)
    log = []
    try:
        res = run_history(prog, ops, counters, log)
    except Exception as err:
        counters.inc2("aborted_internal_error",
                      "harness-or-frontend:" + type(err).__name__)
        return {"counters": counters, "steps": 0, "violations": [],
                "log_digest": digest(["abort", type(err).__name__])}
    out = {"counters": counters, "steps": len(log), "violations": [],
           "log_digest": digest(log)}
    if res["class"] is not None:
        cls = res["class"]
        mprog, mops = c10_shrink(prog, ops, cls)
        final = run_history(mprog, mops)
        rep = {"property": PROPERTY, "engine": ENGINE, "engine_version": 1,
               "seed": seed, "run_index": index, "violation_class": cls,
               "scenario": {"program": mprog,
                            "fortran": richgen.program_text(mprog)},
               "schedule": mops, "faults": "none injected",
               "observed": final.get("observed")}
        rep["features"] = features(rep)
        out["violations"].append({"class": cls, "replay": rep})
        return out
    if res["accepted"] >= 1:
        out["digest"] = digest([prog, res["pattern"]])
        if index < 24 or index % 199 == 0:
            out["sample"] = {"history": res["pattern"]}
    return out


def c10_shrink(prog, ops, cls):
    def fails(p, o):
        try:
            return run_history(p, o)["class"] == cls
        except Exception:
            return False
    res = run_history(prog, ops)
    if res["class"] != cls:
        return prog, ops
    ops = ops[:res["step"] + 1]
    i = len(ops) - 2
    while i >= 0:
        cand = ops[:i] + ops[i + 1:]
        if fails(prog, cand):
            ops = cand
        i -= 1
    progress = True
    rounds = 0
    while progress and rounds < 60:
        progress = False
        rounds += 1
        for cand in richgen.shrink_candidates(prog):
            if fails(cand, ops):
                prog = cand
                progress = True
                break
    return prog, ops


def replay(rep):
    res = run_history(rep["scenario"]["program"], rep["schedule"])
    if res["class"] is None:
        return None
    obs = dict(res.get("observed") or {})
    obs.pop("text", None)
    return {"class": res["class"], "observed": obs}


def signature_match(sig, vio):
    if vio["class"] != sig.get("class"):
        return False
    feats = vio["replay"].get("features", {})
    obs = vio["replay"].get("observed") or {}
    if "error_contains" in sig and sig["error_contains"] not in \
            obs.get("error", ""):
        return False
    if "needs_class" in sig and sig["needs_class"] not in \
            feats.get("classes", []):
        return False
    if "detail_name" in sig and sig["detail_name"] != \
            (obs.get("detail") or {}).get("name"):
        return False
    return True
