"""C14 - the PSyIR tree stays well-formed under any sequence of edits.

Engine E2 (S-hist): a seeded history of public child-list operations on a
forest of real PSyIR nodes; the only fault is the refusal the system itself
raises.  Oracle (DESIGN 4.4): after every operation
  (a) parent/child links are bidirectional, every listing unique,
  (b) every child is of a kind the *frozen* grammar (c14_grammar) allows at
      its final position,
  (c) if the operation raised, the forest digest is exactly what it was.
"""
from simkit.core import stream, digest, pick, Counters
from checks import c14_grammar as G

PROPERTY = "C14"
ENGINE = "E2-history"
LEVEL = "exploration"
RULE = ("Seeded histories (<=40 ops) of public child-list operations "
        "(append/addchild/insert/extend/pop/remove/__setitem__/__delitem__/"
        "reverse/clear/children=/detach/replace_with/pop_all_children, "
        "constructor parent=) with indices in -(len+2)..len+2 on a seeded "
        "forest of real PSyIR nodes (<=~40 nodes). Non-trivial: >=5 ops "
        "executed with >=1 refused and >=1 accepted mutation. Distinct by "
        "digest of (op names, argument shapes, accept/refuse pattern).")
REAL_VS_STUB = {
    "psyclone.psyir.nodes (Node, ChildrenList, all _validate_child)":
        "real code from /repo working tree",
    "reference model": "plain-Python mirror + frozen child-kind grammar "
                       "(checks/c14_grammar.py)",
    "scheduler/clock": "none: single-threaded history; the injected fault is "
                       "the refusal raised by the system itself"}
ASSUMPTIONS = [
    "Frozen grammar transcribed from the documented _children_valid_format "
    "strings and cross-validated against the pinned tree's _validate_child "
    "(tools/validate_c14_grammar.py).",
    "Inserting a node underneath one of its own descendants (a cycle) is "
    "not generated: the statement's two sentences are silent on it.",
    "children += items and children *= n are generated (they add "
    "children); slice assignment/deletion and sort are not: the real list "
    "refuses them outright."]


def plan(tier):
    if tier == "thorough":
        return {"runs": 400000, "slice": 2000, "budget_s": 1500,
                "slice_timeout_s": 600}
    return {"runs": 24000, "slice": 500, "budget_s": 120,
            "slice_timeout_s": 600}


# --------------------------------------------------------------------------
# forest construction from a JSON spec (so a replay needs no PRNG)
# --------------------------------------------------------------------------
def gen_tree(rng, depth, want):
    """Produce a spec {"k": kind, "c": [...], "v": value} for category
    `want` in {"stmt", "data", "sched"}."""
    if want == "data":
        if depth <= 0 or rng.random() < 0.55:
            if rng.random() < 0.5:
                return {"k": "Literal", "v": pick(rng, ["1", "2"])}
            return {"k": "Reference", "v": pick(rng, ["a", "b"])}
        kind = pick(rng, ["BinaryOperation", "UnaryOperation",
                          "ArrayReference", "Call"])
        if kind == "BinaryOperation":
            return {"k": kind, "c": [gen_tree(rng, depth - 1, "data"),
                                     gen_tree(rng, depth - 1, "data")]}
        if kind == "UnaryOperation":
            return {"k": kind, "c": [gen_tree(rng, depth - 1, "data")]}
        if kind == "ArrayReference":
            return {"k": kind, "v": "arr", "c": [
                gen_tree(rng, depth - 1, "data")
                for _ in range(rng.randint(1, 2))]}
        return {"k": "Call", "c": [{"k": "Reference", "v": "sub"}] + [
            gen_tree(rng, depth - 1, "data")
            for _ in range(rng.randint(0, 2))]}
    if want == "sched":
        return {"k": "Schedule", "c": [
            gen_tree(rng, depth - 1, "stmt")
            for _ in range(rng.randint(0, 3 if depth > 0 else 1))]}
    # statements
    kinds = ["Assignment", "Return", "Call"]
    if depth > 0:
        kinds += ["Loop", "IfBlock", "IfBlock", "WhileLoop", "Loop",
                  "OMPParallelDirective", "OMPMasterDirective",
                  "OMPSingleDirective", "ACCKernelsDirective",
                  "ACCParallelDirective", "OMPDoDirective",
                  "ACCLoopDirective",
                  "OMPParallelDoDirective"]
    kind = pick(rng, kinds)
    if kind == "Assignment":
        return {"k": kind, "c": [gen_tree(rng, 0, "data"),
                                 gen_tree(rng, min(depth, 1), "data")]}
    if kind == "Return":
        return {"k": kind}
    if kind == "Call":
        return {"k": "Call", "c": [{"k": "Reference", "v": "sub"}] + [
            gen_tree(rng, 0, "data") for _ in range(rng.randint(0, 2))]}
    if kind == "Loop":
        return {"k": kind, "c": [gen_tree(rng, 0, "data"),
                                 gen_tree(rng, 0, "data"),
                                 gen_tree(rng, 0, "data"),
                                 gen_tree(rng, depth - 1, "sched")]}
    if kind == "WhileLoop":
        return {"k": kind, "c": [gen_tree(rng, 0, "data"),
                                 gen_tree(rng, depth - 1, "sched")]}
    if kind == "IfBlock":
        kids = [gen_tree(rng, 0, "data"), gen_tree(rng, depth - 1, "sched")]
        if rng.random() < 0.5:
            kids.append(gen_tree(rng, depth - 1, "sched"))
        return {"k": kind, "c": kids}
    if kind in ("OMPParallelDirective", "OMPParallelDoDirective"):
        kids = [gen_tree(rng, depth - 1, "sched"),
                {"k": "OMPDefaultClause"}, {"k": "OMPPrivateClause"},
                {"k": "OMPFirstprivateClause"}]
        if kind == "OMPParallelDoDirective":
            kids.append({"k": "OMPScheduleClause"})
        return {"k": kind, "c": kids}
    if kind == "OMPSingleDirective":
        kids = [gen_tree(rng, depth - 1, "sched")]
        if rng.random() < 0.5:
            kids.append({"k": "OMPNowaitClause"})
        return {"k": kind, "c": kids}
    # single-Schedule region directives
    return {"k": kind, "c": [gen_tree(rng, depth - 1, "sched")]}


def gen_forest(rng):
    forest = []
    for _ in range(rng.randint(1, 3)):
        forest.append(gen_tree(rng, rng.randint(1, 3),
                               pick(rng, ["stmt", "stmt", "sched"])))
    # orphans to feed insertions
    for _ in range(rng.randint(2, 6)):
        forest.append(gen_tree(rng, rng.randint(0, 1),
                               pick(rng, ["data", "data", "stmt", "sched"])))
    return forest


class World:
    """The real forest plus the bookkeeping that gives every node an id."""

    def __init__(self, spec):
        # imports here so that the module can be imported without psyclone
        from psyclone.psyir import nodes as N
        from psyclone.psyir.symbols import (DataSymbol, INTEGER_TYPE,
                                            RoutineSymbol, ArrayType,
                                            REAL_TYPE)
        self.N = N
        self.INTEGER_TYPE = INTEGER_TYPE
        self.syms = {
            "a": DataSymbol("a", INTEGER_TYPE),
            "b": DataSymbol("b", INTEGER_TYPE),
            "i": DataSymbol("i", INTEGER_TYPE),
            "arr": DataSymbol("arr", ArrayType(REAL_TYPE, [10, 10])),
            "sub": RoutineSymbol("sub")}
        self.nodes = []      # id -> node
        self.ids = {}        # id(node) -> our id
        for tree in spec:
            self.build(tree)

    def register(self, node):
        if id(node) not in self.ids:
            self.ids[id(node)] = len(self.nodes)
            self.nodes.append(node)
        return node

    def make_leaf(self, kind, value=None, parent=None):
        N = self.N
        kw = {} if parent is None else {"parent": parent}
        if kind == "Literal":
            return N.Literal(value or "1", self.INTEGER_TYPE, **kw)
        if kind == "Reference":
            return N.Reference(self.syms[value or "a"], **kw)
        if kind == "Return":
            return N.Return(**kw)
        if kind == "Schedule":
            return N.Schedule(**kw)
        if kind == "ArrayReference":
            return N.ArrayReference(self.syms["arr"], **kw)
        if kind == "Loop":
            return N.Loop(variable=self.syms["i"], **kw)
        if kind == "Call":
            return N.Call(**kw)
        if kind == "BinaryOperation":
            return N.BinaryOperation(N.BinaryOperation.Operator.ADD, **kw)
        if kind == "UnaryOperation":
            return N.UnaryOperation(N.UnaryOperation.Operator.MINUS, **kw)
        cls = getattr(N, kind)
        return cls(**kw)

    def build(self, spec):
        kind = spec["k"]
        node = self.make_leaf(kind, spec.get("v"))
        return self.fill(node, spec)

    def fill(self, node, spec):
        self.register(node)
        # region directives create their own Schedule in the constructor
        existing = list(node.children)
        for pos, child in enumerate(spec.get("c", [])):
            if pos < len(existing):
                self.fill(existing[pos], child)
            else:
                node.addchild(self.build(child))
        return node

    # ---- observation ------------------------------------------------
    def nid(self, node):
        return self.ids.get(id(node), -1)

    def snapshot(self):
        """Structure digest input: per node (kind, child ids, parent id,
        constructor-parent flag)."""
        snap = []
        for node in self.nodes:
            par = node.parent
            snap.append((type(node).__name__,
                         tuple(self.nid(c) for c in list.__iter__(
                             node.children)),
                         -1 if par is None else self.nid(par),
                         bool(node.has_constructor_parent)))
        return snap

    def check_wellformed(self):
        """Returns None or (class, detail)."""
        for pid, node in enumerate(self.nodes):
            kids = list(list.__iter__(node.children))
            pk = type(node).__name__
            seen = set()
            for pos, child in enumerate(kids):
                cid = self.nid(child)
                if id(child) in seen:
                    return ("child-listed-twice",
                            {"parent": pid, "parent_kind": pk, "child": cid})
                seen.add(id(child))
                if child.parent is not node:
                    return ("child-parent-link-broken",
                            {"parent": pid, "parent_kind": pk, "child": cid,
                             "pos": pos, "child_parent":
                             None if child.parent is None
                             else self.nid(child.parent)})
                if child.has_constructor_parent:
                    return ("listed-child-still-flagged-constructor-parent",
                            {"parent": pid, "child": cid})
                if not G.allowed(pk, pos, type(child).__name__):
                    return ("invalid-kind-at-position",
                            {"parent_kind": pk, "pos": pos,
                             "child_kind": type(child).__name__,
                             "parent": pid, "child": cid})
            par = node.parent
            if par is not None and not node.has_constructor_parent:
                count = sum(1 for c in list.__iter__(par.children)
                            if c is node)
                if count != 1:
                    return ("parent-does-not-list-child-once",
                            {"node": pid, "kind": pk, "parent":
                             self.nid(par), "count": count})
        return None


# --------------------------------------------------------------------------
# operations
# --------------------------------------------------------------------------
OPS = ["append", "addchild", "addchild_at", "insert", "extend", "pop",
       "pop_default", "remove", "setitem", "delitem", "reverse", "clear",
       "set_children", "detach", "replace_with", "pop_all", "new",
       "new_with_parent", "iadd", "imul"]
LEAF_KINDS = ["Literal", "Reference", "Return", "Schedule", "Literal",
              "Reference", "Loop", "Call", "ArrayReference"]


def gen_ops(rng, n):
    """Abstract ops: node operands are large integers resolved modulo the
    current population, indices are resolved relative to len(children), so
    any sub-sequence is still executable (needed for ddmin)."""
    ops = []
    for _ in range(n):
        name = pick(rng, OPS)
        op = {"op": name, "p": rng.randrange(1 << 16),
              "c": rng.randrange(1 << 16),
              # index = len*ilen + ioff, ilen in {0,1,-1}
              "ilen": pick(rng, [0, 0, 1, -1, -1]),
              "ioff": rng.randint(-2, 2),
              "csel": pick(rng, ["orphan", "orphan", "orphan", "any",
                                 "sibling", "fresh"]),
              "psel": pick(rng, ["inner", "inner", "any"])}
        if name in ("extend", "set_children", "iadd"):
            op["cs"] = [rng.randrange(1 << 16)
                        for _ in range(rng.randint(0, 3))]
            op["dup"] = rng.random() < 0.15
        if name in ("new", "new_with_parent"):
            op["kind"] = pick(rng, LEAF_KINDS)
            op["v"] = pick(rng, ["1", "2", "a", "b"])
        ops.append(op)
    return ops


def _is_ancestor_or_self(anc, node):
    cur = node
    hops = 0
    while cur is not None and hops < 1000:
        if cur is anc:
            return True
        cur = cur.parent
        hops += 1
    return False


def resolve(world, op):
    """Turn the abstract op into concrete (parent, index, child...)."""
    nodes = world.nodes
    if op["psel"] == "inner":
        inner = [n for n in nodes if len(n.children) > 0 or
                 type(n).__name__ in ("Schedule", "Loop", "Call",
                                      "ArrayReference")]
        pool = inner or nodes
    else:
        pool = nodes
    parent = pool[op["p"] % len(pool)]

    def choose(sel, key):
        if sel == "orphan":
            cand = [n for n in nodes if n.parent is None]
        elif sel == "sibling":
            cand = list(list.__iter__(parent.children))
        else:
            cand = nodes
        # never build a cycle (see ASSUMPTIONS): a node that the parent
        # hangs under (by parent links) and that could be accepted because
        # it is an orphan or only has a constructor-declared parent.
        cand = [n for n in cand if not (
            (n.parent is None or n.has_constructor_parent) and
            _is_ancestor_or_self(n, parent))]
        if not cand:
            return None
        return cand[key % len(cand)]

    if op["csel"] == "fresh":
        kind = "Literal" if op["c"] % 2 else "Reference"
        child = world.register(world.make_leaf(kind, None))
    else:
        child = choose(op["csel"], op["c"])
    index = len(parent.children) * op["ilen"] + op["ioff"]
    extra = None
    if "cs" in op:
        extra = []
        for key in op["cs"]:
            got = choose(op["csel"] if op["csel"] != "fresh" else "orphan",
                         key)
            if got is not None:
                extra.append(got)
        if op.get("dup") and extra:
            extra.append(extra[0])
    return parent, index, child, extra


def execute(world, op):
    """Run one op against the real API.  Returns (desc, exception|None)."""
    name = op["op"]
    if name == "new":
        kind = op["kind"]
        val = op["v"] if kind == "Literal" and op["v"] in "12" else None
        if kind == "Reference":
            val = op["v"] if op["v"] in "ab" else "a"
        node = world.register(world.make_leaf(kind, val))
        for sub in node.children:
            world.register(sub)
        return ("new", kind), None
    parent, index, child, extra = resolve(world, op)
    pk = type(parent).__name__
    ck = type(child).__name__ if child is not None else None
    desc = (name, pk, len(parent.children), index, ck,
            None if child is None else ("orphan" if child.parent is None
                                        else "attached"))
    try:
        if name == "new_with_parent":
            kind = op["kind"]
            val = None
            if kind == "Literal":
                val = op["v"] if op["v"] in "12" else "1"
            if kind == "Reference":
                val = op["v"] if op["v"] in "ab" else "a"
            node = world.make_leaf(kind, val, parent=parent)
            world.register(node)
            for sub in node.children:
                world.register(sub)
            desc = (name, pk, kind)
        elif child is None and name in ("append", "addchild", "addchild_at",
                                        "insert", "remove", "setitem",
                                        "replace_with"):
            return ("skip",), None
        elif name == "append":
            parent.children.append(child)
        elif name == "addchild":
            parent.addchild(child)
        elif name == "addchild_at":
            parent.addchild(child, index)
        elif name == "insert":
            parent.children.insert(index, child)
        elif name == "extend":
            parent.children.extend(extra)
            desc = (name, pk, len(extra), bool(op.get("dup")))
        elif name == "iadd":
            kids = parent.children
            kids += extra
            desc = (name, pk, len(extra), bool(op.get("dup")))
        elif name == "imul":
            kids = parent.children
            kids *= 2
        elif name == "pop":
            parent.children.pop(index)
        elif name == "pop_default":
            parent.children.pop()
        elif name == "remove":
            parent.children.remove(child)
        elif name == "setitem":
            parent.children[index] = child
        elif name == "delitem":
            del parent.children[index]
        elif name == "reverse":
            parent.children.reverse()
        elif name == "clear":
            parent.children.clear()
        elif name == "set_children":
            parent.children = extra
            desc = (name, pk, len(extra), bool(op.get("dup")))
        elif name == "detach":
            parent.detach()
        elif name == "replace_with":
            parent.replace_with(child)
        elif name == "pop_all":
            parent.pop_all_children()
    except RecursionError:
        raise
    except Exception as err:  # the refusal == the injected fault
        return desc, err
    return desc, None


def fault_kind(err):
    msg = str(err)
    if isinstance(err, IndexError):
        return "bad-index"
    if "not an orphan" in msg or "should be None" in msg:
        return "non-orphan-child"
    if "can't be child" in msg:
        return "invalid-kind-at-position"
    if "constructor predefined" in msg:
        return "constructor-parent-mismatch"
    if isinstance(err, ValueError):
        return "not-in-list"
    if "should have a parent" in msg:
        return "no-parent"
    return type(err).__name__


def run_history(forest_spec, ops, counters=None, log=None):
    """Execute; return None or a violation dict (without replay)."""
    world = World(forest_spec)
    bad = world.check_wellformed()
    if bad:   # the constructors themselves must produce a valid forest
        return {"class": "harness:initial-forest-invalid", "observed": bad,
                "step": -1}
    accepted = refused = 0
    pattern = []
    for step, op in enumerate(ops):
        before = world.snapshot()
        nbefore = len(before)
        desc, err = execute(world, op)
        after = world.snapshot()
        if counters is not None:
            counters.inc2("ops", op["op"])
        if err is not None:
            refused += 1
            if counters is not None:
                counters.inc2("faults_fired", fault_kind(err))
            # nodes registered during the op (fresh children) are ignored
            # for atomicity only if still isolated
            if after[:nbefore] != before:
                return {"class": "refused-edit-changed-tree:" + op["op"],
                        "step": step, "observed": {
                            "op": desc, "error": f"{type(err).__name__}: "
                            f"{str(err)[:200]}",
                            "diff": [(i, before[i], after[i])
                                     for i in range(nbefore)
                                     if before[i] != after[i]][:6]}}
        else:
            if after[:nbefore] != before:
                accepted += 1
        pattern.append((desc[0], desc[1:], err is None))
        bad = world.check_wellformed()
        if bad:
            return {"class": bad[0] + ":" + op["op"], "step": step,
                    "observed": {"op": desc, "detail": bad[1],
                                 "raised": None if err is None else
                                 f"{type(err).__name__}: {str(err)[:200]}"}}
        if log is not None:
            log.append((desc, None if err is None else type(err).__name__,
                        digest(after)))
    return {"class": None, "accepted": accepted, "refused": refused,
            "pattern": pattern, "nodes": len(world.nodes)}


def ddmin_ops(forest, ops, cls):
    """Greedy one-at-a-time / chunk deletion while the class persists."""
    def fails(cand):
        res = run_history(forest, cand)
        return res["class"] == cls
    chunk = max(1, len(ops) // 2)
    while chunk >= 1:
        i = 0
        while i < len(ops):
            cand = ops[:i] + ops[i + chunk:]
            if cand != ops and fails(cand):
                ops = cand
            else:
                i += chunk
        chunk //= 2
    # shrink the forest too: drop whole trees
    i = 0
    while i < len(forest) and len(forest) > 1:
        cand = forest[:i] + forest[i + 1:]
        res = run_history(cand, ops)
        if res["class"] == cls:
            forest = cand
        else:
            i += 1
    return forest, ops


def run_one(seed, index, tier):
    counters = Counters()
    rng_f = stream(seed, "forest")
    rng_o = stream(seed, "ops")
    forest = gen_forest(rng_f)
    ops = gen_ops(rng_o, rng_o.randint(5, 40))
    log = []
    res = run_history(forest, ops, counters, log)
    out = {"counters": counters, "steps": len(log), "violations": [],
           "log_digest": digest(log)}
    if res["class"] is not None:
        cls = res["class"]
        mforest, mops = ddmin_ops(forest, ops, cls)
        final = run_history(mforest, mops)
        out["violations"].append({
            "class": cls,
            "replay": {"property": PROPERTY, "engine": ENGINE,
                       "engine_version": 1, "seed": seed,
                       "run_index": index, "violation_class": cls,
                       "scenario": {"forest": mforest}, "schedule": mops,
                       "faults": "the refusals raised by the system itself",
                       "observed": final.get("observed")}})
        return out
    if len(ops) >= 5 and res["accepted"] >= 1 and res["refused"] >= 1:
        out["digest"] = digest(res["pattern"])
        if index < 16 or index % 499 == 0:
            out["sample"] = {"forest": forest,
                             "history": [[p[0], list(p[1]), p[2]]
                                         for p in res["pattern"]]}
    counters.inc("accepted_mutations", res["accepted"])
    counters.inc("refused_ops", res["refused"])
    return out


def replay(rep):
    res = run_history(rep["scenario"]["forest"], rep["schedule"])
    if res["class"] is None:
        return None
    return {"class": res["class"], "observed": res.get("observed")}


def signature_match(sig, vio):
    """sig: {"class_prefix": ...}; C14 has no open findings planned."""
    return vio["class"].startswith(sig.get("class_prefix", "\x00"))
