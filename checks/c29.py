"""C29 - transformed-kernel output never clobbers other kernels.

Engine E1 (S-baton): 1-3 real PSyclone runs as baton-passing threads sharing
one kernel-output directory; every file-system call under that directory is
a yield point; crash / torn-write / ENOSPC faults are applied inside the
create..write..close window.  Oracle: DESIGN 4.1.
"""
import os
import re
import shutil
import tempfile

from simkit.core import stream, digest, pick, Counters
from simkit import fsrace

PROPERTY = "C29"
ENGINE = "E1-fsrace"
LEVEL = "exploration"
RULE = ("Seeded scenarios: 1-3 real PSyclone runs (LFRic or GOcean algorithm "
        "from the repo's test files, 1-2 transformed kernels each, identical "
        "or differing kernel variants) sharing one kernel-output directory "
        "under scheme 'multiple' or 'single', optional sequential prefix "
        "runs and left-over files, interleaved at every os.open/os.write/"
        "os.close/open() on that directory by a seeded baton scheduler, with "
        "crash / torn-write / ENOSPC faults in a separate sub-batch. "
        "Non-trivial: >=2 runs reached >=1 yield point each and the baton "
        "changed hands inside a create..close window. Distinct by (scheme, "
        "run specs, baton-order string, fault list).")
REAL_VS_STUB = {
    "PSyclone parse / PSyFactory / kernel transformations / psy.gen / "
    "CodedKern.rename_and_write / FortranWriter": "real code from /repo",
    "file system": "real tmpfs directory; every call on it intercepted by "
                   "shims on os/io/builtins (no repo hook)",
    "process boundaries": "stub: each PSyclone run is a thread in one "
                          "interpreter holding a baton; a crash unwinds the "
                          "thread and closes its fds (bytes written persist)",
    "scheduler": "seeded baton scheduler (simkit/fsrace.py)"}
ASSUMPTIONS = [
    "A run's kernel text depends on the chosen index only through the "
    "<module>_<n>_mod and <kernel>_<n>_code identifiers (expected text is "
    "obtained from a solo run by substituting the index).",
    "Parsing/transforming happens before the concurrent phase; only psy.gen "
    "(where rename_and_write is reached) runs under the scheduler.",
    "os.open faults other than EEXIST are not injected (the property is "
    "silent on them)."]

BASE = os.path.join(os.environ.get("VERIF_REPO", "/repo"),
                    "src/psyclone/tests/test_files/")
ALGS = {
    "lfric": [("1_single_invoke.f90", 1), ("4_multikernel_invokes.f90", 2),
              ("1.2_multi_invoke.f90", 2),
              ("4.13_multikernel_invokes_w3_anyd.f90", 2)],
    "gocean": [("single_invoke.f90", 1),
               ("single_invoke_two_kernels.f90", 2)],
}
KERNEL_FILES = {
    "lfric": ["testkern_mod.F90", "testkern_w3_mod.f90",
              "testkern_anyd_any_space_mod.f90"],
    "gocean": ["compute_cu_mod.f90", "time_smooth_mod.f90"],
}
VARIANTS = {"lfric": ["acc", "acc", 20, 30, "acc+c1", None],
            "gocean": ["acc", "acc", "acc+c1", "acc+c2", None]}
_SRC = {}


def srcdir(api):
    """PSyclone scans every file of the algorithm's directory when looking
    for kernels (~9000 opens per scenario in the repo's test_files), so the
    handful of files used here is copied to a scratch directory once per
    process tree."""
    key = (api, os.getpid())
    if api in _SRC and os.path.isdir(_SRC[api]):
        return _SRC[api]
    sub = "dynamo0p3" if api == "lfric" else "gocean1p0"
    dst = tempfile.mkdtemp(prefix="c29src_" + api, dir=scratch_root())
    for name in [a for a, _ in ALGS[api]] + KERNEL_FILES[api]:
        shutil.copy(os.path.join(BASE, sub, name), dst)
    _SRC[api] = dst
    _SRC.setdefault("owner", os.getpid())
    return dst


def prepare():
    for api in ALGS:
        srcdir(api)


def cleanup():
    if _SRC.get("owner") == os.getpid():
        for api in ALGS:
            if api in _SRC:
                shutil.rmtree(_SRC[api], ignore_errors=True)


def plan(tier):
    if tier == "thorough":
        return {"runs": 40000, "slice": 40, "budget_s": 2400,
                "slice_timeout_s": 900}
    return {"runs": 640, "slice": 10, "budget_s": 150,
            "slice_timeout_s": 240}


# --------------------------------------------------------------------------
# building one PSyclone run (sequential phase)
# --------------------------------------------------------------------------
def reset_psyclone(api, outdir, scheme):
    from psyclone.configuration import Config
    Config._instance = None
    cfg = Config.get()
    cfg.api = api
    cfg.kernel_output_dir = outdir
    cfg.kernel_naming = scheme
    return cfg


def build_psy(api, alg, variants):
    from psyclone.parse.algorithm import parse
    from psyclone.psyGen import PSyFactory
    from psyclone.transformations import (ACCRoutineTrans,
                                          Dynamo0p3KernelConstTrans)
    src = srcdir(api)
    _, info = parse(os.path.join(src, alg), api=api, kernel_paths=[src])
    psy = PSyFactory(api, distributed_memory=False).create(info)
    pos = 0
    bases = []
    for inv in psy.invokes.invoke_list:
        for kern in inv.schedule.coded_kernels():
            var = variants[pos % len(variants)]
            pos += 1
            if var is None:
                continue
            mod = kern.module_name
            bases.append((mod[:-4] if mod.lower().endswith("_mod") else mod,
                          kern.name[:-5] if kern.name.endswith("_code")
                          else kern.name, var))
            if var == "acc":
                ACCRoutineTrans().apply(kern)
            elif isinstance(var, str) and var.startswith("acc+c"):
                ACCRoutineTrans().apply(kern)
                sched = kern.get_kernel_schedule()
                sched.children[0].preceding_comment = "variant " + var[5:]
            else:
                Dynamo0p3KernelConstTrans().apply(
                    kern, {"number_of_layers": int(var)})
    return psy, bases


_SOLO = {}


def solo_texts(api, alg, variants, scheme):
    """Reference: the same run executed alone in an empty directory.
    Returns list of (modbase, kernbase, index, text) per transformed
    kernel or None if the solo run itself fails."""
    key = (api, alg, tuple(variants), scheme)
    if key in _SOLO:
        return _SOLO[key]
    tmp = tempfile.mkdtemp(prefix="c29solo", dir=scratch_root())
    try:
        reset_psyclone(api, tmp, scheme)
        try:
            import io, contextlib
            with contextlib.redirect_stdout(io.StringIO()):
                psy, bases = build_psy(api, alg, variants)
                code = str(psy.gen)
        except Exception as err:
            _SOLO[key] = ("failed", type(err).__name__)
            return _SOLO[key]
        out = []
        used = used_modules(code, bases)
        for (mbase, kbase, var) in bases:
            cands = [u for u in used if u[0] == mbase]
            out.append((mbase, kbase, var, cands))
        texts = {}
        for name in os.listdir(tmp):
            with open(os.path.join(tmp, name)) as fin:
                texts[name] = fin.read()
        _SOLO[key] = ("ok", bases, used, texts)
        return _SOLO[key]
    finally:
        shutil.rmtree(tmp, ignore_errors=True)


def scratch_root():
    return "/dev/shm" if os.path.isdir("/dev/shm") else tempfile.gettempdir()


USE_RE = re.compile(r"(?im)^\s*use\s+(\w+?)_(\d+)_mod\s*,\s*only\s*:\s*"
                    r"(\w+?)_(\d+)_code\b")


def used_modules(code, bases):
    """[(modbase, modidx, kernbase, kernidx)] for transformed kernels named
    in the generated PSy layer."""
    out = []
    mb = {b[0].lower() for b in bases}
    for m in USE_RE.finditer(code):
        if m.group(1).lower() in mb:
            tup = (m.group(1), int(m.group(2)), m.group(3), int(m.group(4)))
            if tup not in out:
                out.append(tup)
    return out


def reindex(text, mbase, kbase, old, new):
    text = re.sub(rf"(?i)\b{re.escape(mbase)}_{old}_mod\b",
                  f"{mbase}_{new}_mod", text)
    text = re.sub(rf"(?i)\b{re.escape(kbase)}_{old}_code\b",
                  f"{kbase}_{new}_code", text)
    return text


def expected_texts(solo, mbase, index):
    """All texts a kernel with module base `mbase` of this run spec may
    legitimately have at `index`."""
    _, bases, used, texts = solo
    out = set()
    for (mb, mi, kb, ki) in used:
        if mb.lower() != mbase.lower():
            continue
        name = f"{mb}_{mi}_mod.f90"
        if name in texts:
            out.add(reindex(texts[name], mb, kb, mi, index))
    return out


# --------------------------------------------------------------------------
# scenario generation
# --------------------------------------------------------------------------
def gen_scenario(rng, with_faults):
    api = pick(rng, ["lfric", "lfric", "gocean"])
    scheme = pick(rng, ["multiple", "single"])
    nruns = pick(rng, [2, 2, 2, 3, 3, 1])
    same = rng.random() < (0.7 if scheme == "single" else 0.4)
    runs = []
    alg0, nk0 = pick(rng, ALGS[api])
    var0 = [pick(rng, VARIANTS[api]) for _ in range(nk0)]
    if all(v is None for v in var0):
        var0[0] = "acc"
    if api == "gocean":
        var0 = [v if not isinstance(v, int) else "acc" for v in var0]
    for _ in range(nruns):
        if same:
            runs.append({"alg": alg0, "variants": list(var0)})
        else:
            alg, nk = pick(rng, ALGS[api])
            var = [pick(rng, VARIANTS[api]) for _ in range(nk)]
            if all(v is None for v in var):
                var[0] = "acc"
            runs.append({"alg": alg, "variants": var})
    prefix = 0
    if nruns >= 2 and rng.random() < 0.25:
        prefix = 1
    leftovers = []
    if rng.random() < 0.2:
        # what a killed earlier run leaves behind
        leftovers.append({"index": pick(rng, [0, 0, 1]),
                          "content": pick(rng, ["empty", "garbage"])})
    faults = []
    if with_faults:
        for _ in range(pick(rng, [1, 1, 2])):
            kind = pick(rng, ["crash", "crash", "torn", "enospc"])
            faults.append([rng.randrange(nruns), rng.randrange(0, 7), kind,
                           round(rng.random(), 2)])
    policy = pick(rng, ["uniform", "sticky", "after-create", "after-create"])
    return {"api": api, "scheme": scheme, "runs": runs, "prefix": prefix,
            "leftovers": leftovers, "policy": policy}, faults


def make_chooser(policy, rng):
    def chooser(sim, runnable):
        if len(runnable) == 1:
            return runnable[0]
        last = sim.schedule[-1] if sim.schedule else None
        cur = [t for t in runnable if t.tid == last]
        others = [t for t in runnable if t.tid != last]
        if policy == "sticky" and cur and rng.random() < 0.7:
            return cur[0]
        if policy == "after-create" and cur and others:
            # just created a file? then let somebody else in (in-flight
            # window); otherwise mostly keep going
            ev = sim.events[-1] if sim.events else None
            in_window = ev is not None and ev[1] == last and \
                ev[2] in ("os.open", "os.write") and ev[4] in ("created",) \
                or (ev is not None and ev[2] == "os.write")
            if in_window and rng.random() < 0.8:
                return others[rng.randrange(len(others))]
            if not in_window and rng.random() < 0.6:
                return cur[0]
        return runnable[rng.randrange(len(runnable))]
    return chooser


def replay_chooser(schedule):
    state = {"i": 0, "diverged": False}

    def chooser(sim, runnable):
        i = state["i"]
        state["i"] += 1
        if i < len(schedule):
            for thr in runnable:
                if thr.tid == schedule[i]:
                    return thr
            state["diverged"] = True
        return runnable[0]
    chooser.state = state
    return chooser


# --------------------------------------------------------------------------
# executing a scenario
# --------------------------------------------------------------------------
def execute(scn, faults, chooser):
    """Returns dict(violation=None|..., info=...)."""
    import io
    import contextlib
    api, scheme = scn["api"], scn["scheme"]
    outdir = tempfile.mkdtemp(prefix="c29out", dir=scratch_root())
    try:
        # solo references first (they reset Config themselves)
        solos = [solo_texts(api, r["alg"], r["variants"], scheme)
                 for r in scn["runs"]]
        reset_psyclone(api, outdir, scheme)
        built = []
        with contextlib.redirect_stdout(io.StringIO()):
            for r in scn["runs"]:
                built.append(build_psy(api, r["alg"], r["variants"]))
        # left-overs of earlier killed runs
        for lo in scn["leftovers"]:
            for (mbase, _, _) in built[0][1][:1]:
                path = os.path.join(outdir, f"{mbase}_{lo['index']}_mod.f90")
                with open(path, "w") as fout:
                    if lo["content"] == "garbage":
                        fout.write("module half_written\n  integer :: x\n")
        preexisting = {}
        for name in sorted(os.listdir(outdir)):
            with open(os.path.join(outdir, name)) as fin:
                preexisting[name] = fin.read()

        sim = fsrace.Sim(outdir, chooser, faults)

        def body_for(i):
            def body(thr):
                return str(built[i][0].gen)
            return body
        nprefix = scn["prefix"]
        for i in range(len(built)):
            after = None if i < nprefix or nprefix == 0 else \
                list(range(nprefix))
            if i < nprefix and i > 0:
                after = list(range(i))
            sim.add_run(body_for(i), after)
        # stdout is redirected once, by the scheduler thread (a per-thread
        # redirect_stdout would be restored in the wrong order)
        with contextlib.redirect_stdout(io.StringIO()):
            with fsrace.Shims(sim):
                steps = sim.run()
        final = {}
        for name in sorted(os.listdir(outdir)):
            with open(os.path.join(outdir, name)) as fin:
                final[name] = fin.read()
        return judge(scn, faults, sim, built, solos, preexisting, final,
                     steps)
    finally:
        shutil.rmtree(outdir, ignore_errors=True)


def check_file_text(name, text, mbase_idx):
    """Oracle 4: names inside the file match its name, text complete."""
    mod = name[:-4]     # strip .f90
    low = text.lower()
    if not re.search(rf"(?im)^\s*module\s+{re.escape(mod.lower())}\b", low):
        return "module-name-does-not-match-file"
    if not re.search(rf"(?im)^\s*end\s+module\s+{re.escape(mod.lower())}\s*$",
                     low.rstrip() + "\n"):
        return "file-incomplete-or-torn"
    return None


def judge(scn, faults, sim, built, solos, preexisting, final, steps):
    scheme = scn["scheme"]
    fault_free = not faults and not scn["leftovers"]
    info = {"steps": steps, "schedule": list(sim.schedule),
            "events": [list(e) for e in sim.events],
            "faults_fired": [list(f) for f in sim.faults_fired],
            "statuses": []}
    window_switch = False
    # baton changed hands inside a create..close window?
    open_by = {}
    for (_, tid, call, base, res) in sim.events:
        if call == "os.open" and res == "created":
            open_by[base] = tid
        elif call == "os.close":
            open_by.pop(base, None)
        if any(t != tid for t in open_by.values()):
            window_switch = True
    info["window_switch"] = window_switch
    info["yielding_runs"] = sum(1 for t in sim.threads if t.yields >= 1)

    def vio(cls, **obs):
        return {"class": cls, "observed": obs, "info": info}

    if sim.monitor_violations:
        mv = sim.monitor_violations[0]
        return vio(scheme + ":" + mv[0], detail=list(mv))
    # every path written by at most one run
    for path, writers in sorted(sim.path_writers.items()):
        if len(writers) > 1:
            return vio(scheme + ":file-written-by-two-runs",
                       file=os.path.basename(path), runs=sorted(writers))
    # pre-existing files never modified
    for name, text in preexisting.items():
        if final.get(name) != text:
            return vio(scheme + ":pre-existing-file-modified", file=name)

    claimed = {}     # module file -> (run, ...)
    for i, thr in enumerate(sim.threads):
        solo = solos[i]
        if thr.state == "crashed":
            info["statuses"].append("crashed")
            continue
        if thr.error is not None:
            ename = type(thr.error).__name__
            info["statuses"].append("failed:" + ename)
            msg = str(thr.error)
            if scheme == "single" and fault_free and ename == \
                    "GenerationError" and "already exists" in msg and \
                    solo[0] == "ok":
                # which file?  all transformed kernels map to index 0
                differs = False
                for (mbase, kbase, var) in solo[1]:
                    fname = f"{mbase}_0_mod.f90"
                    exp = expected_texts(solo, mbase, 0)
                    if fname in final and final[fname] not in exp:
                        differs = True
                if not differs:
                    return vio("single:identical-kernel-run-failed",
                               run=i, error=msg[:160])
            continue
        info["statuses"].append("ok")
        code = thr.result
        if solo[0] != "ok":
            continue        # cannot judge content; names still checked
        bases = solo[1]
        used = used_modules(code, bases)
        want = len(solo[2])
        if scheme == "multiple" and len(used) != want:
            return vio("multiple:psy-layer-names-wrong-number-of-kernels",
                       run=i, used=used, expected=want)
        for (mb, mi, kb, ki) in used:
            fname = f"{mb}_{mi}_mod.f90"
            if mi != ki:
                return vio(scheme + ":psy-layer-module-kernel-index-differ",
                           run=i, use=[mb, mi, kb, ki])
            if fname not in final:
                return vio(scheme + ":psy-layer-uses-missing-file",
                           run=i, file=fname)
            if scheme == "single" and mi != 0:
                return vio("single:more-than-one-file", run=i, file=fname)
            if scheme == "multiple":
                if fname in claimed and claimed[fname] != (i, mb, mi):
                    return vio("multiple:two-kernels-share-a-file",
                               file=fname, runs=[claimed[fname][0], i])
                if fname in preexisting:
                    return vio("multiple:run-uses-pre-existing-file",
                               run=i, file=fname)
                # a second kernel of the same run with the same base must
                # have its own file: `used` is de-duplicated, so compare
                claimed[fname] = (i, mb, mi)
                creator = sim.path_creator.get(
                    os.path.join(sim.outdir, fname))
                if creator != i:
                    return vio("multiple:run-uses-file-created-by-another",
                               run=i, file=fname, creator=creator)
            bad = check_file_text(fname, final[fname], (mb, mi))
            if bad:
                return vio(scheme + ":" + bad, run=i, file=fname)
            if not re.search(rf"(?i)\bsubroutine\s+{re.escape(kb)}_{ki}_code"
                             rf"\b", final[fname]):
                return vio(scheme + ":kernel-routine-name-does-not-match",
                           run=i, file=fname)
            if re.search(r"(?i)procedure", final[fname]) and not re.search(
                    rf"(?i)procedure.*=>\s*{re.escape(kb)}_{ki}_code\b",
                    final[fname]) and not re.search(
                    rf"(?i)procedure.*::\s*{re.escape(kb)}_{ki}_code\b",
                    final[fname]):
                return vio(scheme + ":metadata-procedure-does-not-match",
                           run=i, file=fname)
            exp = expected_texts(solo, mb, mi)
            if exp and final[fname] not in exp:
                return vio(scheme + ":kernel-file-content-not-this-runs",
                           run=i, file=fname,
                           got_head=final[fname][:120])
        if scheme == "multiple":
            # kernels of one run sharing a base must not share a file
            nkern = sum(1 for b in bases)
            if len({(u[0].lower(), u[1]) for u in used}) < len(solo[2]):
                return vio("multiple:two-kernels-of-one-run-share-a-file",
                           run=i, used=used)
    return {"class": None, "info": info}


# --------------------------------------------------------------------------
def run_scenario(scn, faults, chooser):
    res = execute(scn, faults, chooser)
    return res


def shrink(scn, faults, schedule, cls):
    """ddmin in the order faults -> runs -> leftovers/prefix -> schedule."""
    def fails(s, f, sch):
        ch = replay_chooser(sch)
        try:
            res = execute(s, f, ch)
        except Exception:
            return None
        if res["class"] == cls:
            return res
        return None
    best = fails(scn, faults, schedule)
    if best is None:
        return scn, faults, schedule, None
    # faults
    for i in range(len(faults) - 1, -1, -1):
        cand = faults[:i] + faults[i + 1:]
        got = fails(scn, cand, schedule)
        if got:
            faults, best = cand, got
            schedule = best["info"]["schedule"]
    # runs
    i = len(scn["runs"]) - 1
    while i >= 0 and len(scn["runs"]) > 1:
        cand = dict(scn, runs=scn["runs"][:i] + scn["runs"][i + 1:],
                    prefix=min(scn["prefix"], len(scn["runs"]) - 2))
        remap = {}
        k = 0
        for j in range(len(scn["runs"])):
            if j != i:
                remap[j] = k
                k += 1
        csch = [remap[t] for t in schedule if t in remap]
        cf = [[remap[f[0]]] + f[1:] for f in faults if f[0] in remap]
        got = fails(cand, cf, csch)
        if got:
            scn, faults, best = cand, cf, got
            schedule = best["info"]["schedule"]
        i -= 1
    for key, val in (("leftovers", []), ("prefix", 0)):
        if scn[key]:
            cand = dict(scn)
            cand[key] = val
            got = fails(cand, faults, schedule)
            if got:
                scn, best = cand, got
                schedule = best["info"]["schedule"]
    # one transformed kernel per run where possible
    for i, r in enumerate(scn["runs"]):
        for j, v in enumerate(r["variants"]):
            if v is not None and sum(x is not None
                                     for x in r["variants"]) > 1:
                nv = list(r["variants"])
                nv[j] = None
                cand = dict(scn, runs=[dict(rr) for rr in scn["runs"]])
                cand["runs"][i]["variants"] = nv
                got = fails(cand, faults, schedule)
                if got:
                    scn, best = cand, got
                    schedule = best["info"]["schedule"]
    # schedule: fewer context switches
    changed = True
    while changed:
        changed = False
        for i in range(len(schedule) - 1):
            if schedule[i] != schedule[i + 1]:
                cand = list(schedule)
                cand[i], cand[i + 1] = cand[i + 1], cand[i]
                if _switches(cand) < _switches(schedule):
                    got = fails(scn, faults, cand)
                    if got and got["info"]["schedule"] == cand:
                        schedule, best = cand, got
                        changed = True
                        break
    return scn, faults, schedule, best


def _switches(sch):
    return sum(1 for a, b in zip(sch, sch[1:]) if a != b)


def run_one(seed, index, tier):
    counters = Counters()
    # fault-free and fault-injecting configurations are separate sub-batches
    with_faults = (index % 3 == 2)
    rng_s = stream(seed, "scenario")
    rng_c = stream(seed, "schedule")
    scn, faults = gen_scenario(rng_s, with_faults)
    chooser = make_chooser(scn["policy"], rng_c)
    res = execute(scn, faults, chooser)
    info = res["info"]
    counters.inc2("sub_batch", "fault_injecting" if with_faults
                  else "fault_free")
    counters.inc2("schemes", scn["scheme"])
    counters.inc2("apis", scn["api"])
    for f in info["faults_fired"]:
        counters.inc2("faults_fired", f[2])
    for st in info["statuses"]:
        counters.inc2("run_outcomes", st)
    counters.inc2("probes", "leftover_files", 1 if scn["leftovers"] else 0)
    counters.inc2("probes", "sequential_prefix", 1 if scn["prefix"] else 0)
    counters.inc2("probes", "eexist_seen", 1 if any(
        e[4] == "EEXIST" for e in info["events"]) else 0)
    counters.inc2("probes", "single_readback_open", 1 if any(
        e[2].startswith("open:") for e in info["events"]) else 0)
    counters.inc2("probes", "baton_switch_inside_create_close_window",
                  1 if info["window_switch"] else 0)
    counters.inc("yield_points", sum(1 for _ in info["events"]))
    out = {"counters": counters, "steps": info["steps"], "violations": [],
           "log_digest": digest([info["events"], info["statuses"]])}
    if res["class"] is not None:
        cls = res["class"]
        mscn, mfaults, msched, best = shrink(scn, faults, info["schedule"],
                                             cls)
        if best is None:
            out["harness_note"] = "violation did not replay in-process"
            mscn, mfaults, msched, best = scn, faults, info["schedule"], res
        out["violations"].append({
            "class": cls,
            "replay": {"property": PROPERTY, "engine": ENGINE,
                       "engine_version": 1, "seed": seed,
                       "run_index": index, "violation_class": cls,
                       "scenario": mscn, "schedule": msched,
                       "faults": mfaults,
                       "observed": best.get("observed"),
                       "events": best["info"]["events"],
                       "statuses": best["info"]["statuses"]}})
        return out
    nontrivial = info["yielding_runs"] >= 2 and info["window_switch"]
    if nontrivial:
        out["digest"] = digest([scn["scheme"], scn["api"], scn["runs"],
                                scn["prefix"], scn["leftovers"],
                                info["schedule"], faults])
        if index < 24 or index % 97 == 0:
            out["sample"] = {"scenario": scn, "faults": faults,
                             "baton_order": "".join(
                                 str(t) for t in info["schedule"]),
                             "events": info["events"][:30],
                             "statuses": info["statuses"]}
    return out


def replay(rep):
    ch = replay_chooser(rep["schedule"])
    res = execute(rep["scenario"], rep["faults"], ch)
    if res["class"] is None:
        return None
    return {"class": res["class"], "observed": res.get("observed")}


def signature_match(sig, vio):
    if vio["class"] != sig.get("class"):
        return False
    rep = vio["replay"]
    if sig.get("reader_read_before_writer_wrote"):
        # root cause: some run got EEXIST and opened the file for reading
        # while the creating run had not yet written/closed it.
        creator_done = set()
        for (_, tid, call, base, res) in rep.get("events", []):
            if call == "os.close":
                creator_done.add(base)
            if call.startswith("open:") and base not in creator_done:
                return True
        return False
    return True
