"""C13 - OpenACC data regions move all data the region needs.

Engine E3 + device store (simkit/accsim.py).  A seeded routine goes through
a seeded history of the real ACCKernelsTrans / ACCParallelTrans+ACCLoopTrans
/ ACCDataTrans (either order) / ChunkLoopTrans inside the region /
ACCUpdateTrans; the written text's clauses drive a host+device simulation
in which device allocations are undefined (POISON).  Host arrays after the
routine must equal a host-only run of the untransformed routine, no
undefined device value may be read or copied back.  DESIGN 4.12.
"""
import copy
import sys

from simkit.core import stream, digest, Counters
from simkit import accgen, accsim, interp, runner

PROPERTY = "C13"
ENGINE = "E3-accsim"
LEVEL = "exploration"
RULE = ("Seeded routines over arrays of extent n (2..6) with full, partial, "
        "conditional and shifted writes, host time loops and host IFs around "
        "device loops; seeded history of ACCKernelsTrans / ACCParallelTrans+"
        "ACCLoopTrans per loop (default(present) on or off), ACCDataTrans "
        "over one or two statement ranges applied before or after the "
        "compute transformations, optionally a nested data region, moving the "
        "following statement into the region (tree API) and ChunkLoopTrans "
        "inside the region afterwards. Non-trivial: "
        "at least one data region entered with >=1 array moved and >=1 "
        "device array access. Distinct by (program digest, recipe, n).")
REAL_VS_STUB = {
    "fparser2 front end, PSyIR, ACCKernelsTrans, ACCParallelTrans, "
    "ACCLoopTrans, ACCDataTrans, ACCUpdateTrans, ChunkLoopTrans, "
    "ACCDataDirective clause generation (VariablesAccessInfo), "
    "FortranWriter": "real code from /repo",
    "Fortran execution": "stub: simkit/interp.py",
    "OpenACC run time (device memory, data clauses, present table, update "
    "directives)": "stub: simkit/accsim.py; device allocations POISONED",
    "scheduler": "none: host and device alternate deterministically; the "
                 "injected nondeterminism is the undefined content of device "
                 "allocations"}
ASSUMPTIONS = [
    "Scalars are treated as host-coherent (kernels: implicit copy; values "
    "assigned to scalars inside a parallel construct and used after it are "
    "outside this property).",
    "Iterations inside a compute construct run in serial order: races "
    "between iterations belong to C08/C09, not to data movement.",
    "Statements that touch arrays inside a data region are on the device "
    "unless ACCUpdateTrans is part of the history (a data region with "
    "unsynchronised host code is user error, not generated).",
    "Arrays are never already present on the device when the routine is "
    "entered.",
    "Symbolic POISON stands for every possible undefined bit pattern."]


def plan(tier):
    if tier == "thorough":
        return {"runs": 200000, "slice": 500, "budget_s": 2400,
                "slice_timeout_s": 900}
    return {"runs": 4000, "slice": 100, "budget_s": 150,
            "slice_timeout_s": 600}


# --------------------------------------------------------------------------
def _in_data(recipe, top):
    return any(s <= top <= e for s, e in recipe["data"])


def build(prog, recipe):
    """Real PSyclone: parse, apply the history, write.  Returns a dict with
    status accepted | refused | impure."""
    from psyclone.psyir.frontend.fortran import FortranReader
    from psyclone.psyir.backend.fortran import FortranWriter
    from psyclone.psyir.nodes import Routine, Loop, ACCDataDirective
    from psyclone.psyir.transformations import (ACCKernelsTrans,
                                                ACCUpdateTrans,
                                                ChunkLoopTrans,
                                                TransformationError)
    from psyclone.transformations import (ACCDataTrans, ACCParallelTrans,
                                          ACCLoopTrans)
    text = accgen.program_text(prog)
    reader = FortranReader()
    orig = reader.psyir_from_source(text)
    work = reader.psyir_from_source(text)
    routine = work.walk(Routine)[0]
    body = prog["body"]
    log = []
    tops = list(routine.children)       # original top-level statements

    def target(path):
        node = tops[path[0]]
        if len(path) == 1:
            return node
        if isinstance(node, Loop):
            return node.loop_body.children[path[1]]
        return node.if_body.children[path[1]]

    def apply_compute():
        for unit in recipe["units"]:
            if unit["kind"] == "host":
                continue
            node = targets[tuple(unit["path"])]
            # default(present) is a promise by the user that the data is
            # on the device: only made for constructs inside a data region
            dpres = unit["dp"] and _in_data(recipe, unit["path"][0])
            if unit["kind"] == "kernels":
                ACCKernelsTrans().apply(
                    node, {"default_present": dpres})
                log.append("kernels")
            else:
                if unit["loopdir"]:
                    try:
                        ACCLoopTrans().apply(node)
                        log.append("loop")
                    except TransformationError:
                        log.append("loop-refused")
                wrap = node
                while wrap.parent is not None and \
                        wrap.parent.parent is not None and \
                        type(wrap.parent.parent).__name__ == \
                        "ACCLoopDirective":
                    wrap = wrap.parent.parent
                ACCParallelTrans(default_present=dpres).apply(wrap)
                log.append("parallel")

    def apply_data():
        k = recipe.get("inner_data")
        if k is not None:
            node = tops[k]
            sched = node.loop_body if isinstance(node, Loop) else \
                node.if_body
            ACCDataTrans().apply(list(sched.children))
            log.append("inner-data")
        for s, e in recipe["data"]:
            first, last = tops_now(s), tops_now(e)
            parent = first.parent
            nodes = parent.children[first.position:last.position + 1]
            ACCDataTrans().apply(nodes)
            log.append("data")

    def tops_now(k):
        """The node that currently stands for original top-level statement
        k in the routine body (it may have been wrapped in directives)."""
        node = tops[k]
        while node.parent is not routine and not (
                isinstance(node.parent.parent, ACCDataDirective)
                and node.parent.parent.parent is routine):
            node = node.parent
        return node

    targets = {tuple(u["path"]): target(u["path"]) for u in recipe["units"]}
    try:
        if recipe["order"] == "compute-first":
            apply_compute()
            apply_data()
        else:
            apply_data()
            apply_compute()
        if recipe.get("move_in"):
            # a script moves the statement that follows the first data
            # region to the end of that region through the public tree API
            # (MoveTrans only moves within one parent); the clauses must
            # follow the edit (Node.update_signal -> _update_node)
            s0, e0 = recipe["data"][0]
            if e0 + 1 < len(tops) and not any(
                    s <= e0 + 1 <= e for s, e in recipe["data"][1:]):
                node = tops_now(e0 + 1)
                region = tops_now(e0).ancestor(ACCDataDirective)
                if region is not None and node.parent is routine:
                    region.dir_body.addchild(node.detach())
                    log.append("move-in")
        if recipe["chunk_after"]:
            for loop in routine.walk(Loop):
                if loop.ancestor(ACCDataDirective) is not None and \
                        loop.variable.name == "i":
                    try:
                        ChunkLoopTrans().apply(loop, {"chunksize": 2})
                        log.append("chunk")
                    except TransformationError:
                        log.append("chunk-refused")
                    break
        if recipe["update"]:
            ACCUpdateTrans().apply(routine)
            log.append("update")
    except TransformationError as err:
        return {"status": "refused", "text": text,
                "reason": str(err.value)[:160], "log": log}
    out_text = FortranWriter()(work)
    low = work
    clauses = accsim.acc_clauses(low, out_text)
    return {"status": "accepted", "text": text, "out_text": out_text,
            "orig": orig, "lowered": low, "clauses": clauses, "log": log}


def host_reference(built, inputs):
    from psyclone.psyir.nodes import Routine
    store = interp.make_store(inputs)
    routine = built["orig"].walk(Routine)[0]
    ctx = interp.Ctx()
    ctx.routines = {r.name.lower(): r for r in built["orig"].walk(Routine)}
    interp.run_serial(routine.children, store, ctx)
    return store


def device_run(built, inputs):
    from psyclone.psyir.nodes import Routine
    store = interp.make_store(inputs)
    routine = built["lowered"].walk(Routine)[0]
    for sym in routine.symbol_table.datasymbols:
        # scalars created by transformations (chunking): undefined on entry
        if sym.name.lower() not in store and sym.is_automatic and \
                not sym.is_array:
            store[sym.name.lower()] = 0
    sim = accsim.AccSim(built["clauses"])
    ctx = interp.Ctx()
    ctx.ext = sim.ext
    ctx.routines = {r.name.lower(): r
                    for r in built["lowered"].walk(Routine)}
    env = interp.Env(store)
    fault = None
    try:
        for _ in interp.exec_block(routine.children, env, ctx):
            pass
    except interp._Return:
        pass
    except interp.RuntimeFault as err:
        fault = (err.kind, repr(err.detail))
    return store, sim, fault, ctx.steps


def region_index(built, node_id):
    """Position of a data region (by identity) in walk order."""
    from psyclone.psyir.nodes import ACCDataDirective
    for k, node in enumerate(built["lowered"].walk(ACCDataDirective)):
        if id(node) == node_id:
            return k
    return None


def judge(built, inputs, ref):
    store, sim, fault, steps = device_run(built, inputs)
    info = {"steps": steps, "moves": dict(sim.moves),
            "regions": dict(sim.regions), "dev_reads": sim.dev_reads,
            "dev_writes": sim.dev_writes,
            "implicit": sorted(sim.implicit)}
    vios = []
    if fault is not None and fault[0] == "first-anomaly":
        fault = None        # reported below from the recorded anomaly
    elif sim.present:
        raise interp.Unsupported("arrays still present at routine exit")
    if fault is not None:
        if fault[0] == "step-cap":
            return [], dict(info, discarded="step-cap")
        if fault[0] == "not-present":
            vios.append({"class":
                         "array-not-present-on-device-under-default-present",
                         "observed": {"array": fault[1]}})
        elif fault[0] in ("poison-in-control", "poison-subscript") and \
                sim.undefined_reads and not (
                    sim.copied_back and
                    sim.copied_back[0][3] < sim.undefined_reads[0][3]):
            vios.append({"class": "undefined-device-value-used-in-control",
                         "observed": {"fault": fault,
                                      "array": sim.undefined_reads[0][0],
                                      "region": region_index(
                                          built, sim.undefined_reads[0][4]),
                                      "undefined_reads": [
                                          list(u[:3]) for u in
                                          sim.undefined_reads[:3]]}})
        elif fault[0] in ("poison-in-control", "poison-subscript") and \
                sim.copied_back:
            # an undefined value that an earlier region copied back to the
            # host reached a control decision later on
            name, offs, mode, _, reg = sim.copied_back[0]
            vios.append({"class":
                         "undefined-device-values-copied-back-to-host",
                         "observed": {"array": name, "offsets": offs,
                                      "clause": mode,
                                      "region": region_index(built, reg),
                                      "later_fault": fault}})
        else:
            vios.append({"class": "device-run-only-fault:" + fault[0],
                         "observed": {"fault": fault}})
        return vios, info
    anomalies = []
    if sim.undefined_reads:
        name, off, written, when, reg = sim.undefined_reads[0]
        anomalies.append((when, {
            "class": "device-read-of-undefined-element",
            "observed": {"array": name, "offset": off,
                         "region": region_index(built, reg),
                         "element_written_on_device_before": written,
                         "count": len(sim.undefined_reads)}}))
    if sim.copied_back:
        name, offs, mode, when, reg = sim.copied_back[0]
        anomalies.append((when, {
            "class": "undefined-device-values-copied-back-to-host",
            "observed": {"array": name, "offsets": offs, "clause": mode,
                         "region": region_index(built, reg)}}))
    # the earliest anomaly is the root cause; later ones are consequences
    # (an undefined value copied back by one region is read by the next)
    for _, vio in sorted(anomalies, key=lambda a: a[0])[:1]:
        vios.append(vio)
    diffs = []
    for name in sorted(ref):
        a, b = ref[name], store[name]
        if isinstance(a, interp.Arr):
            bad = [i for i, (x, y) in enumerate(zip(a.data, b.data))
                   if repr(x) != repr(y)]
            if bad:
                diffs.append((name, len(bad), bad[0], repr(a.data[bad[0]]),
                              repr(b.data[bad[0]])))
    if diffs and not vios:
        vios.append({"class": "host-array-differs-from-host-only-run",
                     "observed": {"array": diffs[0][0], "diffs": diffs[:4]}})
    return vios, info


# --------------------------------------------------------------------------
def features(prog, recipe, built, vio):
    """Root-cause features (for known-finding signatures only)."""
    name = vio["observed"].get("array")
    if name is None and vio["observed"].get("undefined_reads"):
        name = vio["observed"]["undefined_reads"][0][0]
    feats = {"array": name, "update_in_history": bool(recipe["update"]),
             "order": recipe["order"], "clause_of_array": None,
             "first_textual_access_in_region": None,
             "passed_to_call_in_region": False}
    if built is None or name is None:
        return feats
    name = name.strip("'\"")
    feats["array"] = name
    from psyclone.psyir.nodes import ACCDataDirective, Call
    want = vio["observed"].get("region")
    for k, node in enumerate(built["lowered"].walk(ACCDataDirective)):
        if want is not None and k != want:
            continue
        cl = built["clauses"][id(node)]
        for mode in ("copyin", "copyout", "copy"):
            if name in cl[mode]:
                feats["clause_of_array"] = mode
                feats["first_textual_access_in_region"] = \
                    _first_access(node.dir_body, name)
                feats["passed_to_call_in_region"] = any(
                    type(arg).__name__ == "Reference" and
                    arg.symbol.name.lower() == name
                    for call in node.dir_body.walk(Call)
                    if type(call).__name__ == "Call"
                    for arg in call.arguments)
                return feats
    return feats


def _first_access(node, name):
    """First access ("R"/"W") to array `name` in textual/evaluation order
    below `node`; my own walk, independent of VariablesAccessInfo."""
    tname = type(node).__name__
    if tname == "Call":
        for arg in node.arguments:
            if type(arg).__name__ == "Reference" and \
                    arg.symbol.name.lower() == name:
                return "RW"
            got = _first_access(arg, name)
            if got:
                return got
        return None
    if tname == "Assignment":
        got = _first_access(node.rhs, name)
        if got:
            return got
        for ch in node.lhs.children:
            got = _first_access(ch, name)
            if got:
                return got
        if tname == "Assignment" and getattr(node.lhs, "symbol", None) \
                is not None and node.lhs.symbol.name.lower() == name:
            return "W"
        return None
    if tname == "ArrayReference":
        for ch in node.children:
            got = _first_access(ch, name)
            if got:
                return got
        return "R" if node.symbol.name.lower() == name else None
    if tname == "Loop":
        for ch in node.children[:3]:
            got = _first_access(ch, name)
            if got:
                return got
        return _first_access(node.loop_body, name)
    for ch in node.children:
        if type(ch).__name__.endswith("Clause"):
            continue
        got = _first_access(ch, name)
        if got:
            return got
    return None


def fails_with(prog, recipe, inputs, cls):
    try:
        built = build(prog, recipe)
        if built["status"] != "accepted":
            return None
        ref = host_reference(built, inputs)
        vios, info = judge(built, inputs, ref)
    except Exception:
        return None
    for vio in vios:
        if vio["class"] == cls:
            return vio, info, built
    return None


def _shrink_recipes(prog, recipe):
    """Candidates (program, recipe) with one top-level statement removed."""
    body = prog["body"]
    for k in range(len(body) - 1, -1, -1):
        if len(body) == 1:
            break
        cand = copy.deepcopy(prog)
        del cand["body"][k]
        rec = copy.deepcopy(recipe)
        units = []
        for u in rec["units"]:
            if u["path"][0] == k:
                continue
            if u["path"][0] > k:
                u["path"][0] -= 1
            units.append(u)
        rec["units"] = units
        ranges = []
        for s, e in rec["data"]:
            if s <= k <= e:
                e -= 1
            elif k < s:
                s, e = s - 1, e - 1
            if s <= e and e >= 0:
                ranges.append([s, e])
        if not ranges:
            continue
        rec["data"] = ranges
        yield cand, rec


def _shrink_inner(prog):
    """Delete / simplify statements inside loop bodies (paths of the
    recipe's units stay valid because unit targets are never removed)."""
    def lists(p):
        out = []

        def rec(lst, protected):
            for i, st in enumerate(lst):
                out.append((lst, i, protected))
                if st["k"] == "do":
                    # the loops inside a time loop are unit targets
                    rec(st["body"], st["var"] == "l")
                elif st["k"] == "if":
                    rec(st["then"], protected and False)
        for st in p["body"]:
            if st["k"] == "do":
                rec(st["body"], st["var"] == "l")
            elif st["k"] == "if" and st["then"] and \
                    st["then"][0]["k"] == "do":
                for inner in st["then"]:
                    rec(inner["body"], False)
        return out
    n = len(lists(prog))
    for k in range(n - 1, -1, -1):
        cand = copy.deepcopy(prog)
        lst, i, protected = lists(cand)[k]
        if protected:
            continue
        st = lst[i]
        if len(lst) > 1:
            del lst[i]
            yield cand
            cand = copy.deepcopy(prog)
            lst, i, protected = lists(cand)[k]
            st = lst[i]
        if st["k"] == "if":
            lst[i:i + 1] = st["then"]
            yield cand
    from checks import c09
    for cand in c09._candidates(prog):
        if len(cand["body"]) == len(prog["body"]) and all(
                a["k"] == b["k"] for a, b in zip(cand["body"],
                                                 prog["body"])):
            yield cand


def minimise(prog, recipe, inputs, cls):
    best = fails_with(prog, recipe, inputs, cls)
    if best is None:
        return prog, recipe, inputs, None
    for n in (2, 3, 4):
        if n < inputs["n"]:
            cand = accgen.with_n(inputs, n)
            got = fails_with(prog, recipe, cand, cls)
            if got:
                inputs, best = cand, got
                break
    for key, off in (("chunk_after", False), ("update", False),
                     ("inner_data", None), ("move_in", False)):
        if recipe.get(key) not in (False, None):
            cand = dict(recipe, **{key: off})
            got = fails_with(prog, cand, inputs, cls)
            if got:
                recipe, best = cand, got
    if recipe["order"] != "compute-first":
        cand = dict(recipe, order="compute-first")
        got = fails_with(prog, cand, inputs, cls)
        if got:
            recipe, best = cand, got
    progress, rounds = True, 0
    while progress and rounds < 40:
        progress = False
        rounds += 1
        for cprog, crec in _shrink_recipes(prog, recipe):
            got = fails_with(cprog, crec, inputs, cls)
            if got:
                prog, recipe, best = cprog, crec, got
                progress = True
                break
        if progress:
            continue
        for cprog in _shrink_inner(prog):
            got = fails_with(cprog, recipe, inputs, cls)
            if got:
                prog, best = cprog, got
                progress = True
                break
    return prog, recipe, inputs, best


# --------------------------------------------------------------------------
def run_one(seed, index, tier):
    counters = Counters()
    rng_p = stream(seed, "program")
    rng_h = stream(seed, "history")
    rng_i = stream(seed, "inputs")
    prog = accgen.gen_program(rng_p)
    recipe = accgen.gen_recipe(rng_h, prog)
    inputs = accgen.gen_inputs(rng_i)
    out = {"counters": counters, "steps": 0, "violations": [],
           "digests": []}
    try:
        built = build(prog, recipe)
    except Exception as err:
        counters.inc2("aborted_internal_error", type(err).__name__)
        out["log_digest"] = digest(["abort", type(err).__name__, str(err)])
        return out
    counters.inc2("outcomes", built["status"])
    if built["status"] != "accepted":
        if built["status"] == "refused":
            counters.inc2("refusal_reasons", built["reason"][:70])
        out["log_digest"] = digest([built["status"]])
        return out
    for step in built["log"]:
        counters.inc2("transformations_applied", step)
    counters.inc2("history_order", recipe["order"])
    try:
        ref = host_reference(built, inputs)
    except interp.RuntimeFault as err:
        counters.inc2("discarded", "host-" + err.kind)
        out["log_digest"] = digest(["host-fault", err.kind])
        return out
    except interp.Unsupported as err:
        counters.inc2("discarded", "unsupported")
        out["log_digest"] = digest(["unsupported", str(err)])
        return out
    try:
        vios, info = judge(built, inputs, ref)
    except interp.Unsupported as err:
        counters.inc2("discarded", "unsupported-device:" + str(err)[:40])
        out["log_digest"] = digest(["unsupported-dev", str(err)])
        return out
    out["steps"] = info["steps"]
    for kind, cnt in info["moves"].items():
        counters.inc2("faults_fired" if kind == "copyout" else
                      "data_movements", "undefined-device-allocation"
                      if kind == "copyout" else kind, cnt)
    for kind, cnt in info["regions"].items():
        counters.inc2("regions_executed", kind, cnt)
    counters.inc("device_array_reads", info["dev_reads"])
    counters.inc("device_array_writes", info["dev_writes"])
    counters.inc2("probes", "implicit_copy_of_array_not_in_data_clause",
                  1 if info["implicit"] else 0)
    counters.inc2("probes", "array_already_present_at_nested_region",
                  info["moves"]["already_present"])
    counters.inc2("probes", "data_region_after_the_fact_clause_refresh",
                  1 if recipe["order"] == "data-first" else 0)
    moved = sum(info["moves"][k] for k in ("copyin", "copyout", "copy"))
    if info["regions"]["data"] and moved and \
            info["dev_reads"] + info["dev_writes"] > 0:
        dg = digest([prog, recipe, inputs["n"]])
        out["digests"].append(dg)
        out["digest"] = dg
    seen = set()
    for vio in vios:
        if vio["class"] in seen:
            continue
        seen.add(vio["class"])
        pre = {"class": vio["class"], "replay": {"features": features(
            prog, recipe, built, vio), "observed": vio["observed"]}}
        if runner.matches_open_known(sys.modules[__name__], pre):
            best = None         # only counted: not worth minimising
        else:
            mprog, mrec, minputs, best = minimise(prog, recipe, inputs,
                                                  vio["class"])
        if best is None:
            best = (vio, info, built)
            mprog, mrec, minputs = prog, recipe, inputs
        bvio, binfo, bbuilt = best
        out["violations"].append({
            "class": vio["class"],
            "replay": {"property": PROPERTY, "engine": ENGINE,
                       "engine_version": 1, "seed": seed, "run_index": index,
                       "violation_class": vio["class"],
                       "scenario": {"program": mprog, "recipe": mrec,
                                    "inputs": minputs,
                                    "fortran": accgen.program_text(mprog),
                                    "generated": bbuilt["out_text"]},
                       "schedule": "none (host and device alternate "
                                   "deterministically)",
                       "faults": "device allocations undefined (POISON)",
                       "features": features(mprog, mrec, bbuilt, bvio),
                       "observed": bvio["observed"]}})
    out["log_digest"] = digest([built["out_text"], info["moves"],
                                [v["class"] for v in vios]])
    if out.get("digest") and (index < 40 or index % 199 == 0):
        out["sample"] = {"generated": built["out_text"].split(
            "integer :: l")[-1][:1500], "n": inputs["n"],
            "history": built["log"]}
    return out


def replay(rep):
    scn = rep["scenario"]
    got = fails_with(scn["program"], scn["recipe"], scn["inputs"],
                     rep["violation_class"])
    if got is None:
        return None
    return {"class": got[0]["class"], "observed": got[0]["observed"]}


def signature_match(sig, vio):
    if vio["class"] not in sig.get("classes", []):
        return False
    feats = vio["replay"].get("features", {})
    for key, want in sig.get("features", {}).items():
        if feats.get(key) != want:
            return False
    return True
