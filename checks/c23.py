"""C23 - LFRic shared-DoF increments are only parallelised over colours.

Engine E5: seeded LFRic invokes x seeded histories of colouring, OpenMP and
OpenACC loop/region transformations (distributed memory on and off).  After
the history, if code generation succeeds, (a) every parallel cell loop that
contains a kernel incrementing a continuous/unknown-space field must be a
single-colour loop, (b) no loop over colours may sit inside a parallel
region - both read off the generated text - and (c) the simulated parallel
loops must not have two iterations incrementing the same DoF.  DESIGN 4.11.
"""
import random
import re

from simkit.core import stream, digest, pick, Counters
from simkit import lfricgen, lfricsim
from checks import c22

PROPERTY = "C23"
ENGINE = "E5-lfric-dm"
LEVEL = "exploration"
RULE = ("Seeded invokes as for C22 with emphasis on GH_INC / GH_READINC "
        "arguments on continuous and any_space function spaces (plus "
        "GH_WRITE on continuous and discontinuous updates, which may stay "
        "uncoloured) x histories of <=6 of {Dynamo0p3ColourTrans, "
        "DynamoOMPParallelLoopTrans, Dynamo0p3OMPLoopTrans+OMPParallelTrans, "
        "OMPParallelTrans over several loops, ACCLoopTrans, ACCParallelTrans, "
        "ACCKernelsTrans, ACCEnterDataTrans, redundant computation}, with "
        "and without distributed memory. Non-trivial: generation succeeded "
        "with >=1 parallel directive in the text. Distinct by (scenario "
        "digest, history, dm).")
REAL_VS_STUB = dict(c22.REAL_VS_STUB)
ASSUMPTIONS = [
    "A GenerationError at code generation is a refusal, not a product.",
    "The structural oracle reads the generated text; the simulator's race "
    "detector (two iterations of one parallel loop incrementing one DoF on "
    "the 1-D chain mesh) backs it semantically.",
    "Inter-grid kernels and field vectors are not generated; kernels with "
    "LMA operator arguments are generated for the structural oracle only "
    "(the simulator does not execute operators)."]

TRANS = ["colour", "colour", "omp-parallel-loop", "omp-parallel-loop",
         "omp-loop", "omp-region", "acc-loop", "acc-parallel", "acc-kernels",
         "acc-enter-data", "redundant"]


# option dictionaries for ACCLoopTrans (index recorded in the history)
ACC_LOOP_OPTIONS = [0, 0, 0, 1, 2, 3, 4, 5, 6, 7]
_ACC_OPTS = [None, {"sequential": True}, {"gang": True}, {"vector": True},
             {"gang": True, "vector": True},
             {"sequential": True, "gang": True},
             {"sequential": True, "vector": True}, {"independent": False}]


def plan(tier):
    if tier == "thorough":
        return {"runs": 40000, "slice": 50, "budget_s": 2400,
                "slice_timeout_s": 1200}
    return {"runs": 800, "slice": 10, "budget_s": 150,
            "slice_timeout_s": 400}


def _op(rng, kind, n=None, accopt=None):
    return {"t": kind, "n": rng.randrange(1 << 16) if n is None else n,
            "depth": pick(rng, [None, 1, 2]),
            "accopt": pick(rng, ACC_LOOP_OPTIONS) if accopt is None
            else accopt,
            "n2": rng.randrange(1 << 16), "span": pick(rng, [1, 2, 3])}


def gen_history(rng):
    """Half of the histories are unstructured; the others are the coherent
    pipelines a script would write (colour? -> loop directive -> region ->
    enter data), which random sequences of six rarely assemble, followed
    by a few random extras."""
    shape = pick(rng, ["random", "random", "acc", "acc", "omp"])
    ops = []
    if shape == "random":
        for _ in range(rng.randint(1, 6)):
            ops.append(_op(rng, pick(rng, TRANS)))
        return ops
    n = rng.randrange(1 << 16)
    if rng.random() < 0.5:
        ops.append(_op(rng, "colour", n))
    if rng.random() < 0.2:
        ops.append(_op(rng, "redundant", n))
    if shape == "acc":
        # the same index usually addresses the loop just coloured or, one
        # further, the cell loop inside it
        ops.append(_op(rng, "acc-loop", n + pick(rng, [0, 0, 1])))
        ops.append(_op(rng, pick(rng, ["acc-parallel", "acc-parallel",
                                       "acc-kernels"]), n))
        ops.append(_op(rng, "acc-enter-data"))
    else:
        ops.append(_op(rng, pick(rng, ["omp-loop", "omp-parallel-loop"]),
                       n + pick(rng, [0, 0, 1])))
        if rng.random() < 0.4:
            ops.append(_op(rng, "omp-region", n))
    for _ in range(rng.randint(0, 2)):
        ops.insert(rng.randrange(len(ops) + 1), _op(rng, pick(rng, TRANS)))
    return ops


def apply_history(psy, ops, counters=None):
    from psyclone.transformations import (
        Dynamo0p3RedundantComputationTrans, Dynamo0p3ColourTrans,
        DynamoOMPParallelLoopTrans, Dynamo0p3OMPLoopTrans, OMPParallelTrans,
        ACCLoopTrans, ACCParallelTrans, ACCEnterDataTrans)
    from psyclone.psyir.transformations import (TransformationError,
                                                ACCKernelsTrans)
    from psyclone.psyir.nodes import Loop, Directive
    sched = psy.invokes.invoke_list[0].schedule
    out = []
    for op in ops:
        loops = list(sched.walk(Loop))
        kind = op["t"]
        try:
            if kind == "acc-enter-data":
                ACCEnterDataTrans().apply(sched)
            elif not loops:
                raise TransformationError("no loop")
            else:
                loop = loops[op["n"] % len(loops)]
                if kind == "colour":
                    Dynamo0p3ColourTrans().apply(loop)
                elif kind == "omp-parallel-loop":
                    DynamoOMPParallelLoopTrans().apply(loop)
                elif kind == "omp-loop":
                    Dynamo0p3OMPLoopTrans().apply(loop)
                    OMPParallelTrans().apply(loop.parent.parent)
                elif kind == "omp-region":
                    # a region around a span of top-level nodes
                    top = loop
                    while top.parent is not sched and top.parent is not None:
                        top = top.parent
                    pos = top.position
                    OMPParallelTrans().apply(
                        sched.children[pos:pos + op["span"]])
                elif kind == "acc-loop":
                    ACCLoopTrans().apply(loop, _ACC_OPTS[op.get("accopt",
                                                                0)])
                elif kind == "acc-parallel":
                    top = loop
                    while top.parent is not sched and top.parent is not None:
                        top = top.parent
                    pos = top.position
                    ACCParallelTrans().apply(
                        sched.children[pos:pos + op["span"]])
                elif kind == "acc-kernels":
                    top = loop
                    while top.parent is not sched and top.parent is not None:
                        top = top.parent
                    ACCKernelsTrans().apply(top)
                elif kind == "redundant":
                    opts = {} if op["depth"] is None else \
                        {"depth": op["depth"]}
                    Dynamo0p3RedundantComputationTrans().apply(loop, opts)
            out.append((kind, "accepted"))
        except TransformationError:
            out.append((kind, "refused"))
        except Exception as err:
            out.append((kind, "error:" + type(err).__name__))
            if counters is not None:
                counters.inc2("aborted_internal_error",
                              kind + ":" + type(err).__name__)
            break
        if counters is not None:
            counters.inc2("transformations", kind + ":" + out[-1][1])
    return out


# --------------------------------------------------------------------------
def incrementing_kernels(scn):
    """Kernels with an INC/READINC argument on a continuous or unknown
    (any_space) function space."""
    out = set()
    for k in scn["kernels"]:
        for a in k["args"]:
            if a["access"] in ("gh_inc", "gh_readinc") and (
                    lfricgen.is_cont(a["space"]) or
                    a["space"].startswith("any_space")):
                out.add(k["name"])
    return out


def scan_text(code, scn):
    """Structural oracle on the generated invoke.  Returns None or
    (class, detail)."""
    body = lfricsim.parse_invoke(code, "invoke_inv1")
    inc = incrementing_kernels(scn)
    region = []          # stack of open parallel regions
    pending = None       # worksharing directive waiting for its DO
    do_stack = []        # (var, header text, parallel?, inside_kernels?)
    for ln in body:
        low = ln.lower()
        if low.startswith("!$omp") or low.startswith("!$acc"):
            if re.match(r"!\$omp end parallel( do)?\b", low) or \
                    re.match(r"!\$acc end (parallel|kernels)\b", low):
                if not low.startswith("!$omp end parallel do") and region:
                    region.pop()
                continue
            if low.startswith("!$omp parallel do") or \
                    low.startswith("!$omp do") or \
                    low.startswith("!$omp taskloop") or \
                    low.startswith("!$omp loop") or \
                    (low.startswith("!$acc loop") and
                     " seq" not in low):
                # ("!$acc loop seq" runs its loop sequentially)
                pending = low
                if low.startswith("!$omp parallel do"):
                    pass
                continue
            if low.startswith("!$omp parallel") or \
                    low.startswith("!$acc parallel") or \
                    low.startswith("!$acc kernels"):
                region.append(low.split()[0] + " " + low.split()[1])
            continue
        m = re.match(r"(?i)^DO (\w+)\s*=\s*(.+)$", ln)
        if m:
            var = m.group(1).lower()
            par = pending is not None or any(
                r.startswith("!$acc kernels") for r in region)
            if var == "colour" and (region or
                                    (pending or "").startswith(
                                        "!$omp parallel do")):
                return ("loop-over-colours-inside-parallel-region",
                        {"line": ln, "region": region or [pending]})
            do_stack.append((var, m.group(2), par, pending))
            pending = None
            continue
        if re.match(r"(?i)^END DO", ln):
            if do_stack:
                do_stack.pop()
            continue
        m = re.match(r"(?i)^CALL (\w+)_code\(", ln)
        if m and m.group(1).lower() in inc:
            # innermost enclosing cell loop
            for var, hdr, par, how in reversed(do_stack):
                if var != "cell":
                    continue
                enclosing_par = par or any(p for (_, _, p, _) in do_stack)
                if enclosing_par and "all_colours(colour" not in \
                        hdr.lower().replace(" ", ""):
                    return ("uncoloured-parallel-loop-increments-shared-"
                            "dofs", {"kernel": m.group(1).lower(),
                                     "loop": "DO cell = " + hdr,
                                     "directive": how or region})
                break
    return None


def execute(scn, ops, setup, dm, counters=None):
    from psyclone.errors import GenerationError
    psy = lfricgen.build_psy(scn, dist_mem=dm)
    outcomes = apply_history(psy, ops, counters)
    if any(o[1].startswith("error") for o in outcomes):
        return {"class": None, "status": "transformation-internal-error",
                "outcomes": outcomes}
    try:
        code = str(psy.gen)
    except GenerationError:
        return {"class": None, "status": "generation-refused",
                "outcomes": outcomes}
    except Exception as err:
        if counters is not None:
            counters.inc2("aborted_internal_error",
                          "gen:" + type(err).__name__)
        return {"class": None, "status": "generation-internal-error",
                "outcomes": outcomes}
    info = {"outcomes": outcomes, "code": code}
    try:
        bad = scan_text(code, scn)
    except lfricsim.Discard as err:
        return dict(info, **{"class": None, "status": "discarded",
                             "why": str(err)[:80]})
    if bad:
        return dict(info, **{"class": bad[0], "observed": bad[1],
                             "status": "violation"})
    # semantic backing: simulated execution, race detector
    if dm:
        mesh = lfricsim.Mesh(setup["ncells"], setup["nranks"], setup["H"])
        prng = random.Random(setup["sched_seed"])
        sim = lfricsim.Sim(scn, mesh, setup["init"],
                           lambda run: run[prng.randrange(len(run))])
        try:
            body = lfricsim.parse_invoke(code, "invoke_inv1")
            sim.run(body, setup["ext"])
        except (lfricsim.Discard, lfricsim.Violation):
            return dict(info, **{"class": None, "status": "ok-not-simulated"})
        if sim.races:
            return dict(info, **{
                "class": "two-iterations-of-a-parallel-loop-increment-the-"
                         "same-dof", "observed": sim.races[0],
                "status": "violation"})
        if sim.colour_in_region:
            return dict(info, **{
                "class": "loop-over-colours-inside-parallel-region",
                "observed": {"seen": "at run time"}, "status": "violation"})
    return dict(info, **{"class": None, "status": "ok"})


def shrink(scn, ops, setup, dm, cls):
    import copy

    def fails(s, o):
        try:
            res = execute(s, o, setup, dm)
        except Exception:
            return None
        return res if res["class"] == cls else None
    best = fails(scn, ops)
    if best is None:
        return scn, ops, None
    i = len(ops) - 1
    while i >= 0:
        cand = ops[:i] + ops[i + 1:]
        got = fails(scn, cand)
        if got:
            ops, best = cand, got
        i -= 1
    i = len(scn["calls"]) - 1
    while i >= 0 and len(scn["calls"]) > 1:
        cand = copy.deepcopy(scn)
        del cand["calls"][i]
        used = {c["kern"] for c in cand["calls"] if "kern" in c}
        cand["kernels"] = [k for k in cand["kernels"] if k["name"] in used]
        got = fails(cand, ops)
        if got:
            scn, best = cand, got
        i -= 1
    for ki in range(len(scn["kernels"])):
        ai = len(scn["kernels"][ki]["args"]) - 1
        while ai >= 0 and len(scn["kernels"][ki]["args"]) > 1:
            cand = copy.deepcopy(scn)
            del cand["kernels"][ki]["args"][ai]
            got = fails(cand, ops)
            if got:
                scn, best = cand, got
            ai -= 1
    return scn, ops, best


def features(scn, ops, res):
    accs = sorted({(a["access"], a["space"]) for k in scn["kernels"]
                   for a in k["args"] if a["access"] != "gh_read"})
    return {"transformations": sorted({o["t"] for o in ops}),
            "updates": accs,
            "directive": str((res.get("observed") or {}).get("directive"))}


def harvest_key(vio):
    f = vio["replay"].get("features", {})
    return "+".join(f.get("transformations", [])) + "|" + \
        ";".join(f"{a}:{s}" for a, s in f.get("updates", []))


def run_one(seed, index, tier):
    counters = Counters()
    rng_s = stream(seed, "scenario")
    rng_h = stream(seed, "history")
    rng_i = stream(seed, "inputs")
    scn = lfricgen.gen_scenario(rng_s, list(c22.FEATURES) + ["operator"])
    ops = gen_history(rng_h)
    setup = c22.gen_setup(rng_i, scn)
    dm = rng_h.random() < 0.6
    counters.inc2("distributed_memory", str(dm))
    out = {"counters": counters, "steps": len(ops), "violations": []}
    try:
        res = execute(scn, ops, setup, dm, counters)
    except Exception as err:
        counters.inc2("discarded", "pipeline:" + type(err).__name__)
        out["log_digest"] = digest(["pipeline", type(err).__name__])
        return out
    counters.inc2("status", res["status"])
    out["log_digest"] = digest([res["status"], res.get("class"),
                                res.get("outcomes")])
    code = res.get("code", "").lower()
    if res["class"] is not None:
        cls = res["class"]
        import sys
        from simkit import runner
        pre = {"class": cls, "replay": {"observed": res.get("observed"),
                                        "features": features(scn, ops, res)}}
        # an instance of an open known finding is counted, not minimised -
        # unless other transformation kinds are present that could hide a
        # second cause (then minimise and classify the minimal history)
        if runner.matches_open_known(sys.modules[__name__], pre) and \
                len({o["t"] for o in ops} - {"acc-enter-data",
                                             "redundant"}) <= 2:
            mscn, mops, best = scn, ops, res
        else:
            mscn, mops, best = shrink(scn, ops, setup, dm, cls)
        if best is None:
            mscn, mops, best = scn, ops, res
        rep = {"property": PROPERTY, "engine": ENGINE, "engine_version": 1,
               "seed": seed, "run_index": index, "violation_class": cls,
               "scenario": {"lfric": mscn, "setup": setup, "dm": dm,
                            "algorithm": lfricgen.alg_text(mscn),
                            "generated": best.get("code", "")},
               "schedule": [], "history": mops,
               "faults": "none (history dimension)",
               "observed": best.get("observed")}
        rep["features"] = features(mscn, mops, best)
        out["violations"].append({"class": cls, "replay": rep})
        return out
    if res["status"].startswith("ok") and ("!$omp" in code or
                                           "!$acc" in code):
        out["digest"] = digest([scn, ops, dm])
        counters.inc2("probes", "coloured_parallel_loop",
                      1 if "all_colours(colour" in code.replace(" ", "")
                      else 0)
        counters.inc2("probes", "acc_in_text", 1 if "!$acc" in code else 0)
        if index < 24 or index % 199 == 0:
            out["sample"] = {"algorithm": lfricgen.alg_text(scn),
                             "history": res["outcomes"], "dm": dm}
    return out


def replay(rep):
    res = execute(rep["scenario"]["lfric"], rep["history"],
                  rep["scenario"]["setup"], rep["scenario"]["dm"])
    if res["class"] is None:
        return None
    return {"class": res["class"], "observed": res.get("observed")}


def signature_match(sig, vio):
    if vio["class"] not in sig.get("classes", []):
        return False
    feats = vio["replay"].get("features", {})
    if "needs_transformation" in sig and not any(
            t in feats.get("transformations", [])
            for t in sig["needs_transformation"]):
        return False
    if "needs_access" in sig and not any(
            a == sig["needs_access"] for a, _ in feats.get("updates", [])):
        return False
    if "directive_contains" in sig and sig["directive_contains"] not in \
            feats.get("directive", "") + " ".join(
                feats.get("transformations", [])
                if vio["class"].startswith("loop-over-colours") else []):
        return False
    if "forbid_access" in sig and any(
            a == sig["forbid_access"] for a, _ in feats.get("updates", [])):
        return False
    return True
