"""C22 - distributed-memory LFRic code never reads a dirty halo.

Engine E5: seeded LFRic invokes (generated kernel metadata + algorithm) go
through the real PSyclone LFRic pipeline with distributed memory and a
seeded history of LFRic transformations; the *generated PSy-layer text* is
then executed on 2-3 simulated MPI ranks (rank tasks under a seeded
scheduler, halo exchanges as messages, arbitrary initial clean/dirty halo
state with garbage in dirty halos) against a single-copy global reference.
DESIGN 4.10.
"""
import random

from simkit.core import stream, digest, pick, Counters
from simkit import lfricgen, lfricsim

PROPERTY = "C22"
ENGINE = "E5-lfric-dm"
LEVEL = "exploration"
FEATURES = {"stencil", "builtins", "readinc", "cont_write", "anyspace",
            "vector", "multireader"}
RULE = ("Seeded invokes of 1-4 calls (generated kernels with 1-4 field "
        "arguments: read/write/readwrite/inc/readinc on W0-W3/Wtheta/"
        "any_space/any_discontinuous_space, stencils cross/region/x1d with "
        "literal or run-time extent; built-ins setval/X+Y/aX...), both "
        "COMPUTE_ANNEXED_DOFS settings, a seeded history of <=5 "
        "redundant-computation / colouring / OpenMP / async-halo-exchange / "
        "move transformations, executed on a 1-D chain of 8-20 cells over "
        "2-3 ranks with maximum halo depth 2-4 from a seeded initial halo "
        "state per field (clean to depth k, garbage beyond). Non-trivial: "
        ">=1 halo exchange executed or skipped by a run-time flag and >=1 "
        "field started dirty. Distinct by (scenario digest, history, mesh, "
        "initial-state vector).")
REAL_VS_STUB = {
    "PSyclone LFRic front end, kernel metadata parsing, halo-exchange "
    "placement, loop bounds, dirty/clean marking, LFRic transformations, "
    "PSy-layer code generation": "real code from /repo",
    "LFRic infrastructure (mesh, partitions, function spaces, field "
    "proxies, halo exchange, dirty flags, colour maps) and MPI": "stub: "
    "simkit/lfricsim.py (1-D chain; model taken from the developer guide's "
    "dof/cell ordering and annexed-dof rules)",
    "kernels": "stub: hash functions keyed on global cell/dof ids",
    "scheduler": "seeded rank scheduler; ranks are generator tasks that "
                 "block on halo-exchange messages"}
ASSUMPTIONS = [
    "1-D chain mesh: every halo-depth phenomenon is kept (depth = "
    "distance); stencil shape is not modelled (all stencils read the cells "
    "within the extent).",
    "Observable-harm reading of the property: a stale value is reported "
    "when it reaches an owned dof or a dof the flags call clean, or when "
    "flags call a copy clean that differs from its owner.",
    "Inter-grid kernels, CMA operators, operators and reductions are not "
    "generated. A field vector's components are fields of their own in "
    "the model (own initial halo state each); kernels always receive the "
    "whole vector."]


def plan(tier):
    if tier == "thorough":
        return {"runs": 40000, "slice": 50, "budget_s": 2400,
                "slice_timeout_s": 1200}
    return {"runs": 480, "slice": 10, "budget_s": 150,
            "slice_timeout_s": 400}


# --------------------------------------------------------------------------
TRANS = ["redundant", "redundant", "colour", "omp-parallel-loop", "omp-loop",
         "async", "move", "omp-region"]


def gen_history(rng):
    ops = []
    for _ in range(rng.randint(0, 5)):
        ops.append({"t": pick(rng, TRANS), "n": rng.randrange(1 << 16),
                    "depth": pick(rng, [None, 1, 2, 2, 3]),
                    "n2": rng.randrange(1 << 16),
                    "span": pick(rng, [2, 2, 3])})
    if rng.random() < 0.25:
        # the pipeline a script would write: redundant computation on
        # neighbouring loops (different depths), then one parallel region
        # around them
        n = rng.randrange(1 << 16)
        ops = [{"t": "redundant", "n": n, "n2": 0, "span": 2,
                "depth": pick(rng, [None, 2, 3])},
               {"t": "redundant", "n": n + 1, "n2": 0, "span": 2,
                "depth": pick(rng, [None, 1, 1, 2])}][:rng.randint(0, 2)] + \
            [{"t": "omp-region", "n": n, "n2": 0, "depth": None,
              "span": pick(rng, [2, 2, 3])}] + ops[:2]
    return ops


def apply_history(psy, ops, counters=None):
    """Real LFRic transformations.  Returns list of outcomes."""
    from psyclone.transformations import (
        Dynamo0p3RedundantComputationTrans, Dynamo0p3ColourTrans,
        DynamoOMPParallelLoopTrans, Dynamo0p3OMPLoopTrans, OMPParallelTrans,
        Dynamo0p3AsyncHaloExchangeTrans, MoveTrans)
    from psyclone.psyir.transformations import TransformationError
    from psyclone.domain.lfric import LFRicLoop
    from psyclone.dynamo0p3 import LFRicHaloExchange
    from psyclone.errors import GenerationError, InternalError
    sched = psy.invokes.invoke_list[0].schedule
    out = []
    for op in ops:
        loops = [n for n in sched.walk(LFRicLoop)]
        hexs = [n for n in sched.walk(LFRicHaloExchange)]
        kind = op["t"]
        try:
            if kind == "redundant":
                if not loops:
                    raise TransformationError("no loop")
                loop = loops[op["n"] % len(loops)]
                opts = {} if op["depth"] is None else {"depth": op["depth"]}
                Dynamo0p3RedundantComputationTrans().apply(loop, opts)
            elif kind == "colour":
                loop = loops[op["n"] % len(loops)]
                Dynamo0p3ColourTrans().apply(loop)
            elif kind == "omp-parallel-loop":
                loop = loops[op["n"] % len(loops)]
                DynamoOMPParallelLoopTrans().apply(loop)
            elif kind == "omp-loop":
                loop = loops[op["n"] % len(loops)]
                Dynamo0p3OMPLoopTrans().apply(loop)
                OMPParallelTrans().apply(loop.parent.parent)
            elif kind == "omp-region":
                # worksharing directives on neighbouring top-level loops,
                # one parallel region around all of them
                first = loops[op["n"] % len(loops)]
                while first.parent is not sched:
                    first = first.parent
                pos = first.position
                span = sched.children[pos:pos + op.get("span", 2)]
                if len(span) < 2 or not all(isinstance(n, LFRicLoop)
                                            for n in span):
                    raise TransformationError("span is not all loops")
                for lp in span:
                    Dynamo0p3OMPLoopTrans().validate(lp)
                for lp in span:
                    Dynamo0p3OMPLoopTrans().apply(lp)
                pos = span[0].parent.parent.position
                OMPParallelTrans().apply(
                    sched.children[pos:pos + len(span)])
            elif kind == "async":
                if not hexs:
                    raise TransformationError("no halo exchange")
                Dynamo0p3AsyncHaloExchangeTrans().apply(
                    hexs[op["n"] % len(hexs)])
            elif kind == "move":
                nodes = sched.children
                node = nodes[op["n"] % len(nodes)]
                loc = nodes[op["n2"] % len(nodes)]
                MoveTrans().apply(node, loc, {"position": pick(
                    random.Random(op["n2"]), ["before", "after"])})
            out.append((kind, "accepted"))
        except TransformationError as err:
            out.append((kind, "refused"))
        except (GenerationError, InternalError, Exception) as err:
            if kind == "move" and isinstance(err, GenerationError):
                # MoveTrans refuses an invalid location through
                # Node.is_valid_location, which raises GenerationError
                out.append((kind, "refused"))
                if counters is not None:
                    counters.inc2("transformations", kind + ":refused")
                continue
            out.append((kind, "error:" + type(err).__name__))
            if counters is not None:
                counters.inc2("aborted_internal_error",
                              kind + ":" + type(err).__name__)
            break
        if counters is not None:
            counters.inc2("transformations", kind + ":" + out[-1][1])
    return out


def gen_setup(rng, scn):
    nranks = pick(rng, [2, 2, 3])
    H = pick(rng, [2, 3, 3, 4])
    ncells = rng.randint(max(8, nranks * (H + 1)), 20)
    init = {"global": {}, "clean": {}, "seed": rng.randrange(1 << 30)}
    for fname, sp in scn["fields"].items():
        n = ncells + (1 if lfricgen.is_cont(sp) else 0)
        init["global"][fname] = [rng.randrange(1 << 40) for _ in range(n)]
        init["clean"][fname] = pick(rng, [0, 0, 1, 2, H])
    ext = pick(rng, [1, 1, 2])
    return {"nranks": nranks, "H": H, "ncells": ncells, "init": init,
            "ext": ext, "sched_seed": rng.randrange(1 << 30)}


def execute(scn, ops, setup, counters=None, trace=None):
    """Returns dict(class=None|..., ...)."""
    from psyclone.errors import GenerationError
    psy = lfricgen.build_psy(scn)
    outcomes = apply_history(psy, ops, counters)
    if any(o[1].startswith("error") for o in outcomes):
        return {"class": None, "status": "transformation-internal-error",
                "outcomes": outcomes}
    try:
        code = str(psy.gen)
    except GenerationError:
        return {"class": None, "status": "generation-refused",
                "outcomes": outcomes}
    except Exception as err:
        if counters is not None:
            counters.inc2("aborted_internal_error",
                          "gen:" + type(err).__name__)
        return {"class": None, "status": "generation-internal-error",
                "outcomes": outcomes}
    mesh = lfricsim.Mesh(setup["ncells"], setup["nranks"], setup["H"])
    prng = random.Random(setup["sched_seed"])
    if trace is not None:
        it = iter(trace)

        def chooser(runnable):
            want = next(it, None)
            return want if want in runnable else runnable[0]
    else:
        def chooser(runnable):
            return runnable[prng.randrange(len(runnable))]
    sim = lfricsim.Sim(scn, mesh, setup["init"], chooser)
    info = {"outcomes": outcomes, "code": code}
    try:
        body = lfricsim.parse_invoke(code, "invoke_inv1")
        runs = sim.run(body, setup["ext"])
        ref = lfricsim.reference_run(scn, mesh, setup["init"], setup["ext"])
        # (i) owned dofs equal the reference
        for f in sim.fields.values():
            sp = f.space
            for r in range(mesh.R):
                owned = sp.marks[r][0]
                for dof in sp.local_dofs[r][:owned]:
                    if f.data[r][dof] != ref[f.name][dof]:
                        raise lfricsim.Violation(
                            "owned-dof-differs-from-global-reference",
                            {"field": f.name, "rank": r, "dof": dof,
                             "space": sp.kind})
        sim.check_flags_vs_data("end")
    except lfricsim.Discard as err:
        return dict(info, **{"class": None, "status": "discarded",
                             "why": str(err)[:80], "sim": sim})
    except lfricsim.Violation as vio:
        return dict(info, **{"class": vio.cls, "observed": vio.detail,
                             "status": "violation", "sim": sim})
    return dict(info, **{"class": None, "status": "ok", "sim": sim})


def shrink(scn, ops, setup, cls):
    import copy

    def fails(s, o, st):
        try:
            res = execute(s, o, st)
        except Exception:
            return None
        return res if res["class"] == cls else None
    best = fails(scn, ops, setup)
    if best is None:
        return scn, ops, setup, None
    # history
    i = len(ops) - 1
    while i >= 0:
        cand = ops[:i] + ops[i + 1:]
        got = fails(scn, cand, setup)
        if got:
            ops, best = cand, got
        i -= 1
    # calls
    i = len(scn["calls"]) - 1
    while i >= 0 and len(scn["calls"]) > 1:
        cand = copy.deepcopy(scn)
        del cand["calls"][i]
        used = {c["kern"] for c in cand["calls"] if "kern" in c}
        cand["kernels"] = [k for k in cand["kernels"] if k["name"] in used]
        got = fails(cand, ops, setup)
        if got:
            scn, best = cand, got
        i -= 1
    # kernel arguments
    for ki in range(len(scn["kernels"])):
        ai = len(scn["kernels"][ki]["args"]) - 1
        while ai >= 0 and len(scn["kernels"][ki]["args"]) > 1:
            cand = copy.deepcopy(scn)
            del cand["kernels"][ki]["args"][ai]
            got = fails(cand, ops, setup)
            if got:
                scn, best = cand, got
            ai -= 1
    # stencils, scalar
    for ki, k in enumerate(scn["kernels"]):
        for ai, a in enumerate(k["args"]):
            if a["stencil"]:
                cand = copy.deepcopy(scn)
                cand["kernels"][ki]["args"][ai]["stencil"] = None
                got = fails(cand, ops, setup)
                if got:
                    scn, best = cand, got
        if k["scalar"]:
            cand = copy.deepcopy(scn)
            cand["kernels"][ki]["scalar"] = False
            got = fails(cand, ops, setup)
            if got:
                scn, best = cand, got
    # mesh / ranks / initial state
    for key, vals in (("nranks", [2]), ("H", [2, 3]),
                      ("ncells", [8, 10, 12])):
        for v in vals:
            if v < setup[key]:
                cand = copy.deepcopy(setup)
                cand[key] = v
                if cand["ncells"] < cand["nranks"] * (cand["H"] + 1):
                    continue
                for f in list(cand["init"]["clean"]):
                    cand["init"]["clean"][f] = min(cand["init"]["clean"][f],
                                                   cand["H"])
                got = fails(scn, ops, cand)
                if got:
                    setup, best = cand, got
                    break
    for f in sorted(setup["init"]["clean"]):
        for v in (setup["H"], 1):
            if setup["init"]["clean"][f] != v:
                cand = copy.deepcopy(setup)
                cand["init"]["clean"][f] = v
                got = fails(scn, ops, cand)
                if got:
                    setup, best = cand, got
                    break
    return scn, ops, setup, best


def features(scn, ops, res):
    obs = res.get("observed") or {}
    fname = obs.get("field")
    kerninfo = []
    for k in scn["kernels"]:
        kerninfo.append(sorted((a["access"], lfricgen.is_cont(
            scn["fields"][a["field"]]), bool(a["stencil"]), a["space"])
            for a in k["args"]))
    return {"annexed": scn["annexed"],
            "transformations": sorted({o["t"] for o in ops}),
            "builtins": sorted({c["builtin"] for c in scn["calls"]
                                if "builtin" in c}),
            "field_space": scn["fields"].get(fname),
            "dof_depth": obs.get("dof_depth"),
            "kernels": kerninfo}


def run_one(seed, index, tier):
    counters = Counters()
    rng_s = stream(seed, "scenario")
    rng_h = stream(seed, "history")
    rng_i = stream(seed, "inputs")
    scn = lfricgen.gen_scenario(rng_s, FEATURES)
    ops = gen_history(rng_h)
    setup = gen_setup(rng_i, scn)
    out = {"counters": counters, "steps": 0, "violations": []}
    try:
        res = execute(scn, ops, setup, counters)
    except Exception as err:
        counters.inc2("discarded", "pipeline:" + type(err).__name__)
        out["log_digest"] = digest(["pipeline", type(err).__name__,
                                    str(err)[:60]])
        return out
    counters.inc2("status", res["status"])
    if res["status"] == "discarded":
        counters.inc2("discarded", res["why"][:50])
    sim = res.get("sim")
    if sim is not None:
        out["steps"] = len(sim.trace)
        for k, v in sim.counters.items():
            counters.inc2("sim", k, v)
        # injected "faults": garbage in halos that start dirty, and the
        # scheduler-chosen capture/landing instants of asynchronous
        # exchanges
        counters.inc2("faults_fired", "field-starts-with-dirty-halo",
                      sum(1 for v in setup["init"]["clean"].values()
                          if v < setup["H"]))
        counters.inc2("faults_fired", "async-exchange-window",
                      sim.counters.get("async_started", 0))
        counters.inc2("probes", "async_exchange_executed",
                      1 if sim.counters.get("async_started") else 0)
        counters.inc2("probes", "redundant_computation_in_halo",
                      1 if sim.counters.get("kernel_calls_on_halo_cells")
                      else 0)
        counters.inc2("probes", "omp_loop_executed",
                      1 if "!$omp" in res.get("code", "").lower() else 0)
        counters.inc2("probes", "coloured_loop_executed",
                      1 if "cmap(" in res.get("code", "").lower() else 0)
    out["log_digest"] = digest([res["status"], res.get("class"),
                                res.get("outcomes"),
                                None if sim is None else sim.trace[:200]])
    if res["class"] is not None:
        cls = res["class"]
        mscn, mops, msetup, best = shrink(scn, ops, setup, cls)
        if best is None:
            mscn, mops, msetup, best = scn, ops, setup, res
        rep = {"property": PROPERTY, "engine": ENGINE, "engine_version": 1,
               "seed": seed, "run_index": index, "violation_class": cls,
               "scenario": {"lfric": mscn, "setup": msetup,
                            "algorithm": lfricgen.alg_text(mscn),
                            "generated": best.get("code", "")},
               "schedule": list(best["sim"].trace) if best.get("sim")
               else [],
               "history": mops,
               "faults": "initial halo state (garbage beyond clean depth)",
               "observed": best.get("observed")}
        rep["features"] = features(mscn, mops, best)
        out["violations"].append({"class": cls, "replay": rep})
        return out
    if res["status"] == "ok" and sim is not None and \
            sim.counters.get("halo_exchanges", 0) + \
            (1 if "is_dirty" in res["code"] else 0) >= 1 and \
            any(v < setup["H"] for v in setup["init"]["clean"].values()):
        out["digest"] = digest([scn, ops, setup["nranks"], setup["H"],
                                setup["ncells"], setup["init"]["clean"]])
        if index < 24 or index % 199 == 0:
            out["sample"] = {"algorithm": lfricgen.alg_text(scn),
                             "kernels": scn["kernels"],
                             "history": res["outcomes"],
                             "mesh": [setup["ncells"], setup["nranks"],
                                      setup["H"]],
                             "initial_clean_depth": setup["init"]["clean"]}
    return out


def replay(rep):
    scn = rep["scenario"]["lfric"]
    res = execute(scn, rep["history"], rep["scenario"]["setup"],
                  trace=rep["schedule"])
    if res["class"] is None:
        return None
    return {"class": res["class"], "observed": res.get("observed")}


def harvest_key(vio):
    f = vio["replay"].get("features", {})
    return f"{f.get('field_space')}|annexed={f.get('annexed')}|" \
           f"{'+'.join(f.get('transformations', []))}|" \
           f"depth={f.get('dof_depth')}"


def signature_match(sig, vio):
    if vio["class"] not in sig.get("classes", []):
        return False
    feats = vio["replay"].get("features", {})
    for key in ("annexed",):
        if key in sig and sig[key] != feats.get(key):
            return False
    if "no_transformations" in sig and feats.get("transformations"):
        return False
    if "needs_transformation" in sig and sig["needs_transformation"] not in \
            feats.get("transformations", []):
        return False
    if "dof_depth" in sig and sig["dof_depth"] != feats.get("dof_depth"):
        return False
    return True
