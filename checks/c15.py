"""C15 - copies of PSyIR subtrees are independent and equal.

Engine E2 (S-hist): two replicas that must stay isolated.  A seeded subtree
of a generated module is copied with the real Node.copy(); at copy time the
copy must equal the original, share no node and bind inner-scope references
to its own symbols; then a seeded history of edits is applied to either
side and after every edit the *written Fortran of the other side* must be
byte-identical to what it was.  DESIGN 4.6.
"""
import copy as _copy

from simkit.core import stream, digest, pick, Counters
from simkit import richgen
from checks import c26

PROPERTY = "C15"
ENGINE = "E2-history"
LEVEL = "exploration"
RULE = ("Seeded modules (richgen) -> real front end -> copy() of a seeded "
        "subtree (file, module, routine, loop, if-block, assignment) -> "
        "histories of <=8 edits applied to the original or the copy: rename "
        "a symbol declared inside the subtree, add a symbol, replace a "
        "literal/expression, detach or insert a statement, change a loop "
        "bound, change an initial value. After each edit the other side's "
        "FortranWriter text must be unchanged. Non-trivial: >=2 edits "
        "applied, at least one to each side. Distinct by (program digest, "
        "subtree kind, edit pattern).")
REAL_VS_STUB = {
    "fparser2 front end, Node.copy/_refine_copy, SymbolTable.deep_copy, "
    "symbol-table editing API, FortranWriter": "real code from /repo",
    "scheduler/clock": "none: a history of edits on two replicas; there is "
                       "no refusal-as-fault in this property"}
ASSUMPTIONS = [
    "'Either tree' is the copied subtree and its copy: edits touch only "
    "nodes inside the subtree and symbols declared in scopes inside it (a "
    "Routine copied on its own still shares the enclosing module's "
    "symbols with the original).",
    "Leak root causes are classified by whether the edited symbol is "
    "reachable from the other side only through symbol-table-internal "
    "links (datatype precision, array bounds, initial values)."]

SUBTREES = ["file", "module", "routine", "routine", "loop", "if", "assign"]
EDITS = ["rename", "rename", "add-symbol", "replace-literal",
         "replace-expr", "detach-stmt", "insert-stmt", "loop-bound",
         "initial-value", "rename-kind"]


def plan(tier):
    if tier == "thorough":
        return {"runs": 60000, "slice": 300, "budget_s": 2400,
                "slice_timeout_s": 1200}
    return {"runs": 1600, "slice": 40, "budget_s": 150,
            "slice_timeout_s": 400}


MODULE_DECLS = """  integer :: i, k
  integer, parameter :: gp = kind(1.0d0)
  real(kind=gp) :: gscale = 2.0_gp
  integer, parameter :: nmax = 8
  real(kind=gp), dimension(nmax) :: gwork
"""


def program_text(prog):
    text = richgen.program_text(prog)
    if prog.get("module_decls"):
        text = text.replace("  implicit none\ncontains",
                            "  implicit none\n" + MODULE_DECLS + "contains")
    return text


def pick_subtree(root, kind, key):
    from psyclone.psyir import nodes as N
    if kind == "file":
        return root
    table = {"module": N.Container, "routine": N.Routine, "loop": N.Loop,
             "if": N.IfBlock, "assign": N.Assignment}
    cands = [n for n in root.walk(table[kind]) if n is not root and
             not isinstance(n, N.FileContainer)]
    if kind == "module":
        cands = [n for n in cands if type(n).__name__ == "Container"]
    if not cands:
        return root
    return cands[key % len(cands)]


def inner_tables(sub):
    from psyclone.psyir.nodes import ScopingNode
    return [n.symbol_table for n in sub.walk(ScopingNode)]


def write(node):
    from psyclone.psyir.backend.fortran import FortranWriter
    try:
        return FortranWriter()(node)
    except Exception as err:
        return "<writer refused: " + type(err).__name__ + ">"


def check_copy(orig, cp):
    from psyclone.psyir.nodes import Node, Reference, Loop
    if not (cp == orig):
        return ("copy-not-equal-to-original", {})
    ids = {id(n) for n in orig.walk(Node)}
    shared = [type(n).__name__ for n in cp.walk(Node) if id(n) in ids]
    if shared:
        return ("copy-shares-node-with-original", {"kinds": shared[:3]})
    osyms = {}
    for tab in inner_tables(orig):
        for sym in tab.symbols:
            osyms[id(sym)] = sym.name
    for node in cp.walk((Reference, Loop)):
        sym = node.symbol if isinstance(node, Reference) else \
            getattr(node, "_variable", None)
        if sym is not None and id(sym) in osyms:
            return ("copy-reference-bound-to-originals-symbol",
                    {"name": osyms[id(sym)],
                     "node": type(node).__name__})
    # correspondence: the k-th scope of the copy mirrors the k-th scope of
    # the original; a node of the copy must hold the *corresponding* symbol
    # (same name, same scope position) - not merely one of the copy's own
    twin = {}
    tabs_o, tabs_c = inner_tables(orig), inner_tables(cp)
    if len(tabs_o) == len(tabs_c):
        for to, tc in zip(tabs_o, tabs_c):
            for sym in to.symbols:
                other = tc.symbols_dict.get(sym.name.lower())
                if other is None:
                    other = next((s for s in tc.symbols
                                  if s.name.lower() == sym.name.lower()),
                                 None)
                if other is not None:
                    twin[id(sym)] = other
        nodes_o = orig.walk((Reference, Loop))
        nodes_c = cp.walk((Reference, Loop))
        if len(nodes_o) == len(nodes_c):
            for no, nc in zip(nodes_o, nodes_c):
                so = no.symbol if isinstance(no, Reference) else \
                    getattr(no, "_variable", None)
                sc = nc.symbol if isinstance(nc, Reference) else \
                    getattr(nc, "_variable", None)
                if so is None or sc is None:
                    continue
                want = twin.get(id(so))
                if want is None:
                    # declared outside the copied subtree: shared
                    if sc is not so and sc.name.lower() == so.name.lower() \
                            and id(sc) not in {id(t) for t in twin.values()}:
                        continue
                    if sc is not so and id(sc) in {id(t) for t in
                                                   twin.values()}:
                        return ("copy-node-bound-to-non-corresponding-symbol",
                                {"name": so.name, "node": type(nc).__name__,
                                 "expected": "the shared outer symbol"})
                    continue
                if sc is not want:
                    return ("copy-node-bound-to-non-corresponding-symbol",
                            {"name": so.name, "node": type(nc).__name__,
                             "expected": "the same-named symbol of the "
                                         "corresponding scope"})
    return None


def apply_edit(side, op, counters=None):
    """Apply one edit inside `side` (a subtree).  Returns description or
    None if not applicable.  Never raises."""
    from psyclone.psyir import nodes as N
    from psyclone.psyir.symbols import DataSymbol, INTEGER_TYPE, REAL_TYPE
    kind = op["e"]
    try:
        tabs = inner_tables(side)
        if kind in ("rename", "rename-kind"):
            cands = []
            for ti, tab in enumerate(tabs):
                for sym in tab.symbols:
                    if kind == "rename-kind" and not (
                            isinstance(sym, DataSymbol) and sym.is_constant):
                        continue
                    cands.append((tab, sym))
            tries = 0
            while cands and tries < 6:
                tab, sym = cands[(op["k"] + tries) % len(cands)]
                tries += 1
                try:
                    new = tab.next_available_name(sym.name + "_r")
                    old = sym.name
                    tab.rename_symbol(sym, new)
                    return {"e": kind, "symbol": old, "new": new,
                            "sym_obj": sym}
                except Exception:
                    continue
            return None
        if kind == "add-symbol":
            if not tabs:
                return None
            tab = tabs[op["k"] % len(tabs)]
            sym = tab.new_symbol("added", symbol_type=DataSymbol,
                                 datatype=INTEGER_TYPE)
            return {"e": kind, "symbol": sym.name}
        if kind == "replace-literal":
            lits = [n for n in side.walk(N.Literal) if n.parent is not None
                    and n is not side]
            if not lits:
                return None
            lit = lits[op["k"] % len(lits)]
            lit.replace_with(N.Literal(lit.value + "7"
                                       if lit.value.isdigit() else lit.value,
                                       lit.datatype))
            return {"e": kind}
        if kind == "replace-expr":
            exprs = [n for n in side.walk(N.BinaryOperation)
                     if n.parent is not None and n is not side]
            if not exprs:
                return None
            ex = exprs[op["k"] % len(exprs)]
            ex.replace_with(ex.children[0].copy())
            return {"e": kind}
        if kind == "detach-stmt":
            stmts = [n for n in side.walk(N.Assignment)
                     if n.parent is not None and n is not side and
                     isinstance(n.parent, N.Schedule)]
            if not stmts:
                return None
            stmts[op["k"] % len(stmts)].detach()
            return {"e": kind}
        if kind == "insert-stmt":
            scheds = [n for n in side.walk(N.Schedule)]
            if isinstance(side, N.Schedule):
                scheds.append(side)
            asg = [n for n in side.walk(N.Assignment)]
            if not scheds or not asg:
                return None
            sched = scheds[op["k"] % len(scheds)]
            sched.addchild(asg[op["k2"] % len(asg)].copy(), 0)
            return {"e": kind}
        if kind == "loop-bound":
            loops = [n for n in side.walk(N.Loop)]
            if not loops:
                return None
            lp = loops[op["k"] % len(loops)]
            lp.start_expr.replace_with(N.Literal("3", INTEGER_TYPE))
            return {"e": kind}
        if kind == "initial-value":
            for tab in tabs:
                for sym in tab.symbols:
                    if isinstance(sym, DataSymbol) and sym.is_constant and \
                            sym.initial_value is not None and \
                            isinstance(sym.initial_value, N.Literal):
                        sym.initial_value = N.Literal(
                            "9", sym.initial_value.datatype)
                        return {"e": kind, "symbol": sym.name,
                                "sym_obj": sym}
            return None
    except Exception as err:
        if counters is not None:
            counters.inc2("edit_errors", kind + ":" + type(err).__name__)
        return None
    return None


def reachable_via(other, sym):
    """How is `sym` (object identity) reachable from tree `other`?"""
    from psyclone.psyir.nodes import Reference, Loop, ScopingNode, Node
    ways = set()
    for node in other.walk((Reference, Loop)):
        s = node.symbol if isinstance(node, Reference) else \
            getattr(node, "_variable", None)
        if s is sym:
            ways.add("node")
    for sc in other.walk(ScopingNode):
        for s in sc.symbol_table.symbols:
            if s is sym:
                ways.add("table-entry")
            dt = getattr(s, "datatype", None)
            seen = []

            def scan_dt(dtype):
                if dtype is None or id(dtype) in seen:
                    return
                seen.append(id(dtype))
                prec = getattr(dtype, "precision", None)
                if prec is sym:
                    ways.add("datatype-precision")
                for dim in getattr(dtype, "shape", []) or []:
                    for bound in (getattr(dim, "lower", None),
                                  getattr(dim, "upper", None)):
                        if isinstance(bound, Node):
                            for r in bound.walk(Reference):
                                if r.symbol is sym:
                                    ways.add("array-bound")
                inner = getattr(dtype, "intrinsic", None)
                if inner is sym:
                    ways.add("datatype-symbol")
                if hasattr(dtype, "partial_datatype"):
                    scan_dt(dtype.partial_datatype)
            scan_dt(dt)
            iv = getattr(s, "initial_value", None)
            if iv is not None:
                for r in iv.walk(Reference):
                    if r.symbol is sym:
                        ways.add("initial-value")
            iface = getattr(s, "interface", None)
            if getattr(iface, "container_symbol", None) is sym:
                ways.add("import-interface")
    return sorted(ways)


API_NAMES = ["zTmp", "Ji", "ZW", "tmp_A", "jK", "Work1"]


def apply_pre_history(root, pre, counters=None):
    """The tree that gets copied is itself the product of a history: symbols
    and statements created through the PSyIR API (names keep the case the
    caller gave them, unlike names read from source) and symbols created by
    a real transformation.  Never raises."""
    from psyclone.psyir import nodes as N
    from psyclone.psyir.symbols import (DataSymbol, INTEGER_TYPE, REAL_TYPE,
                                        RoutineSymbol)
    for op in pre:
        try:
            routines = root.walk(N.Routine)
            if not routines:
                return
            rt = routines[op["k"] % len(routines)]
            tab = rt.symbol_table
            name = API_NAMES[op["k2"] % len(API_NAMES)]
            if op["p"] == "api-scalar":
                sym = tab.new_symbol(name, symbol_type=DataSymbol,
                                     datatype=REAL_TYPE)
                rt.addchild(N.Assignment.create(
                    N.Reference(sym), N.Literal("1.0", REAL_TYPE)), 0)
                rt.addchild(N.Assignment.create(
                    N.Reference(sym), N.BinaryOperation.create(
                        N.BinaryOperation.Operator.ADD, N.Reference(sym),
                        N.Literal("2.0", REAL_TYPE))))
            elif op["p"] == "api-loop":
                var = tab.new_symbol(name, symbol_type=DataSymbol,
                                     datatype=INTEGER_TYPE)
                acc = tab.new_symbol(API_NAMES[(op["k2"] + 1) %
                                               len(API_NAMES)],
                                     symbol_type=DataSymbol,
                                     datatype=INTEGER_TYPE)
                body = N.Assignment.create(
                    N.Reference(acc), N.BinaryOperation.create(
                        N.BinaryOperation.Operator.ADD, N.Reference(acc),
                        N.Reference(var)))
                rt.addchild(N.Loop.create(
                    var, N.Literal("1", INTEGER_TYPE),
                    N.Literal("3", INTEGER_TYPE),
                    N.Literal("1", INTEGER_TYPE), [body]))
            elif op["p"] == "api-call":
                rsym = tab.new_symbol(name, symbol_type=RoutineSymbol)
                rt.addchild(N.Call.create(rsym, []))
            elif op["p"] == "chunk":
                from psyclone.psyir.transformations import (
                    ChunkLoopTrans, TransformationError)
                loops = rt.walk(N.Loop)
                if loops:
                    try:
                        ChunkLoopTrans().apply(loops[op["k2"] % len(loops)],
                                               {"chunksize": 4})
                    except TransformationError:
                        continue
            if counters is not None:
                counters.inc2("pre_copy_history", op["p"])
        except Exception as err:
            if counters is not None:
                counters.inc2("pre_copy_history_skipped",
                              op["p"] + ":" + type(err).__name__)


def gen_pre(rng):
    if rng.random() < 0.55:
        return []
    return [{"p": pick(rng, ["api-scalar", "api-loop", "api-loop",
                             "api-call", "chunk"]),
             "k": rng.randrange(1 << 16), "k2": rng.randrange(1 << 16)}
            for _ in range(rng.randint(1, 3))]


def run_history(prog, sub_kind, sub_key, ops, counters=None, log=None):
    from psyclone.psyir.frontend.fortran import FortranReader
    root = FortranReader().psyir_from_source(program_text(prog))
    apply_pre_history(root, prog.get("pre", []), counters)
    orig = pick_subtree(root, sub_kind, sub_key)
    cp = orig.copy()
    bad = check_copy(orig, cp)
    if bad:
        return {"class": bad[0], "observed": bad[1], "step": -1}
    sides = {"orig": orig, "copy": cp}
    texts = {k: write(v) for k, v in sides.items()}
    if texts["orig"] != texts["copy"]:
        return {"class": "copy-writes-different-code", "step": -1,
                "observed": {"diff": _first_diff(texts["orig"],
                                                 texts["copy"])}}
    applied = {"orig": 0, "copy": 0}
    pattern = []
    for step, op in enumerate(ops):
        side = op["side"]
        other = "copy" if side == "orig" else "orig"
        desc = apply_edit(sides[side], op, counters)
        if desc is None:
            pattern.append((op["e"], side, "n/a"))
            continue
        applied[side] += 1
        if counters is not None:
            counters.inc2("edits", op["e"])
        now = write(sides[other])
        pattern.append((op["e"], side, "applied"))
        if log is not None:
            log.append((op["e"], side, digest(now)))
        if now != texts[other]:
            ways = []
            if desc.get("sym_obj") is not None:
                ways = reachable_via(sides[other], desc["sym_obj"])
            return {"class": "edit-to-one-side-changed-the-other-sides-code",
                    "step": step,
                    "observed": {"edit": {k: v for k, v in desc.items()
                                          if k != "sym_obj"},
                                 "edited_side": side,
                                 "leak_paths": ways,
                                 "subtree": sub_kind,
                                 "diff": _first_diff(texts[other], now)}}
        texts[side] = write(sides[side])
    return {"class": None, "applied": applied, "pattern": pattern}


def _first_diff(a, b):
    al, bl = a.split("\n"), b.split("\n")
    for x, y in zip(al, bl):
        if x != y:
            return [x.strip(), y.strip()]
    return [len(al), len(bl)]


def gen_ops(rng):
    ops = []
    for _ in range(rng.randint(2, 8)):
        ops.append({"e": pick(rng, EDITS), "side": pick(rng, ["orig",
                                                              "copy"]),
                    "k": rng.randrange(1 << 16),
                    "k2": rng.randrange(1 << 16)})
    return ops


def shrink(prog, sub_kind, sub_key, ops, cls):
    def fails(p, o):
        try:
            return run_history(p, sub_kind, sub_key, o)["class"] == cls
        except Exception:
            return False
    res = run_history(prog, sub_kind, sub_key, ops)
    if res["class"] != cls:
        return prog, ops
    if res["step"] >= 0:
        ops = ops[:res["step"] + 1]
    else:
        ops = []
    i = len(ops) - 2
    while i >= 0:
        cand = ops[:i] + ops[i + 1:]
        if fails(prog, cand):
            ops = cand
        i -= 1
    for k in range(len(prog.get("pre", [])) - 1, -1, -1):
        cand = dict(prog, pre=prog["pre"][:k] + prog["pre"][k + 1:])
        if fails(cand, ops):
            prog = cand
    progress = True
    rounds = 0
    while progress and rounds < 40:
        progress = False
        rounds += 1
        for cand in richgen.shrink_candidates(prog):
            cand["pre"] = prog.get("pre", [])
            if fails(cand, ops):
                prog = cand
                progress = True
                break
    return prog, ops


def run_one(seed, index, tier):
    counters = Counters()
    rng_p = stream(seed, "program")
    rng_h = stream(seed, "history")
    prog = richgen.gen_program(rng_p)
    prog["module_decls"] = rng_p.random() < 0.6
    prog["pre"] = gen_pre(stream(seed, "pre-history"))
    sub_kind = pick(rng_h, SUBTREES)
    sub_key = rng_h.randrange(1 << 16)
    ops = gen_ops(rng_h)
    log = []
    counters.inc2("subtrees", sub_kind)
    try:
        res = run_history(prog, sub_kind, sub_key, ops, counters, log)
    except Exception as err:
        counters.inc2("aborted_internal_error", type(err).__name__)
        return {"counters": counters, "steps": 0, "violations": [],
                "log_digest": digest(["abort", type(err).__name__])}
    out = {"counters": counters, "steps": len(log), "violations": [],
           "log_digest": digest(log)}
    if res["class"] is not None:
        cls = res["class"]
        import sys
        from simkit import runner
        pre = {"class": cls, "replay": {"observed": res.get("observed")}}
        if runner.matches_open_known(sys.modules[__name__], pre):
            mprog, mops, final = prog, ops, res     # counted, not minimised
        else:
            mprog, mops = shrink(prog, sub_kind, sub_key, ops, cls)
            final = run_history(mprog, sub_kind, sub_key, mops)
        rep = {"property": PROPERTY, "engine": ENGINE, "engine_version": 1,
               "seed": seed, "run_index": index, "violation_class": cls,
               "scenario": {"program": mprog, "subtree": sub_kind,
                            "pre_copy_history": mprog.get("pre", []),
                            "subtree_key": sub_key,
                            "fortran": program_text(mprog)},
               "schedule": mops, "faults": "none",
               "observed": final.get("observed")}
        out["violations"].append({"class": cls, "replay": rep})
        return out
    if res["applied"]["orig"] >= 1 and res["applied"]["copy"] >= 1:
        out["digest"] = digest([prog, sub_kind, res["pattern"]])
        if index < 24 or index % 199 == 0:
            out["sample"] = {"subtree": sub_kind, "edits": res["pattern"]}
    return out


def replay(rep):
    scn = rep["scenario"]
    res = run_history(scn["program"], scn["subtree"], scn["subtree_key"],
                      rep["schedule"])
    if res["class"] is None:
        return None
    return {"class": res["class"], "observed": res.get("observed")}


def harvest_key(vio):
    obs = vio["replay"].get("observed") or {}
    return (obs.get("edit") or {}).get("e", "") + "|" + \
        "+".join(obs.get("leak_paths", [])) + "|" + str(obs.get("subtree"))


def signature_match(sig, vio):
    if vio["class"] != sig.get("class"):
        return False
    obs = vio["replay"].get("observed") or {}
    paths = set(obs.get("leak_paths", []))
    if sig.get("only_table_internal_links"):
        # the edited symbol is reachable from the other tree only through
        # symbol-table-internal links: never through a node (Reference /
        # Loop variable) and never as a table entry of the other tree
        internal = {"datatype-precision", "array-bound", "initial-value",
                    "datatype-symbol", "import-interface"}
        return bool(paths) and paths <= internal
    return True
