"""Frozen child-kind grammar for the node kinds the C14 machine uses.

Transcribed from the documented `_children_valid_format` strings of the
pinned tree and validated once against the real `_validate_child`
(tools/validate_c14_grammar.py).  At run time only this table judges
whether a child is of a kind valid at its position, so a weakened
validator in /repo is caught; a stricter one merely causes refusals.
"""
DATANODE = {"Reference", "Literal", "BinaryOperation", "UnaryOperation",
            "ArrayReference", "Call"}
STATEMENT = {"Loop", "WhileLoop", "IfBlock", "Assignment", "Call", "Return",
             "OMPParallelDirective", "OMPMasterDirective",
             "OMPSingleDirective", "OMPDoDirective",
             "OMPParallelDoDirective", "ACCKernelsDirective",
             "ACCParallelDirective", "ACCLoopDirective"}
SCHEDULE = {"Schedule"}
# ArrayReference is-a Reference in the documented class hierarchy
REFERENCE = {"Reference", "ArrayReference"}
LEAVES = {"Reference", "Literal", "Return", "OMPDefaultClause",
          "OMPNowaitClause", "OMPScheduleClause"}
KINDS = sorted(DATANODE | STATEMENT | SCHEDULE | LEAVES | {
    "OMPPrivateClause", "OMPFirstprivateClause"})


def allowed(parent, pos, child):
    """True iff a child of kind `child` is valid at position `pos` (>=0)
    of a node of kind `parent`."""
    if pos < 0:
        return False
    if parent in LEAVES:
        return False
    if parent == "Schedule":
        return child in STATEMENT
    if parent == "Loop":
        return child in DATANODE if pos <= 2 else (
            pos == 3 and child in SCHEDULE)
    if parent == "WhileLoop":
        return child in DATANODE if pos == 0 else (
            pos == 1 and child in SCHEDULE)
    if parent == "IfBlock":
        return child in DATANODE if pos == 0 else (
            pos in (1, 2) and child in SCHEDULE)
    if parent in ("Assignment", "BinaryOperation"):
        return pos <= 1 and child in DATANODE
    if parent == "UnaryOperation":
        return pos == 0 and child in DATANODE
    if parent == "ArrayReference":
        return child in DATANODE     # Range is not in the alphabet
    if parent == "Call":
        return child in REFERENCE if pos == 0 else child in DATANODE
    if parent in ("OMPMasterDirective", "ACCKernelsDirective",
                  "ACCParallelDirective",
                  "ACCLoopDirective", "OMPDoDirective"):
        return pos == 0 and child in SCHEDULE
    if parent == "OMPSingleDirective":
        return (pos == 0 and child in SCHEDULE) or (
            pos == 1 and child == "OMPNowaitClause")
    if parent == "OMPParallelDirective":
        return ((pos == 0 and child in SCHEDULE) or
                (pos == 1 and child == "OMPDefaultClause") or
                (pos == 2 and child == "OMPPrivateClause") or
                (pos == 3 and child == "OMPFirstprivateClause"))
    if parent == "OMPParallelDoDirective":
        return ((pos == 0 and child in SCHEDULE) or
                (pos == 1 and child == "OMPDefaultClause") or
                (pos == 2 and child == "OMPPrivateClause") or
                (pos == 3 and child == "OMPFirstprivateClause") or
                (pos == 4 and child == "OMPScheduleClause"))
    if parent in ("OMPPrivateClause", "OMPFirstprivateClause"):
        return child in REFERENCE
    raise KeyError(f"kind {parent} is not in the C14 alphabet")
