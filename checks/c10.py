"""C10 - directive trees produced by accepted transformations are valid.

Engine E4: seeded histories of OpenMP-only or OpenACC-only directive
transformations (interleaved with a few structure-changing ones) on
generated modules.  After the history the real FortranWriter either refuses
or must emit text that satisfies the three structural rules the property
names (own scanner) and is accepted by gfortran -fopenmp/-fopenacc (compiled
to a discarded object so that the middle end's nesting checks run) as far as
directives are concerned.  DESIGN 4.8.
"""
import re

from simkit.core import stream, digest, pick, Counters
from simkit import richgen, gfcheck, histmachine as hm
from checks import c26

PROPERTY = "C10"
ENGINE = "E4-transhistory"
LEVEL = "exploration"
RULE = ("Seeded modules (richgen) x histories of <=7 accepted-or-refused "
        "operations from one programming model per history: OpenMP "
        "{OMPParallelTrans, OMPLoopTrans(do|paralleldo|teamsdistribute"
        "paralleldo|loop; schedules; collapse), OMPParallelLoopTrans, "
        "OMPSingleTrans, OMPMasterTrans, OMPTargetTrans, OMPTaskloopTrans, "
        "OMPTaskwaitTrans} or OpenACC {ACCParallelTrans, ACCLoopTrans("
        "collapse/independent/sequential/gang/vector), ACCKernelsTrans, "
        "ACCDataTrans, ACCEnterDataTrans, ACCUpdateTrans}, mixed with "
        "LoopSwap/Chunk/LoopFuse/Move. Oracle after every accepted step. "
        "Non-trivial: >=1 accepted directive transformation and the writer "
        "produced text. Distinct by (program digest, history pattern).")
REAL_VS_STUB = {
    "fparser2 front end, PSyIR, directive transformations, "
    "validate_global_constraints, FortranWriter": "real code from /repo",
    "OpenMP/OpenACC-aware compiler": "real gfortran 12 (-c -O0 to a "
                                     "discarded object) used as a validity "
                                     "oracle (nothing is executed)",
    "scheduler/clock": "none (single-threaded history; the refusal is the "
                       "only fault)"}
ASSUMPTIONS = [
    "One programming model per history: mixing OpenMP and OpenACC in one "
    "nest is treated as outside realistic use.",
    "Only gfortran errors that concern a directive count (message mentions "
    "OpenMP/OpenACC/collapse/work-sharing/nesting or the quoted source line "
    "is a directive); other errors belong to C04.",
    "force=True is never passed."]

OMP = ["OMPParallelTrans", "OMPParallelTrans", "OMPLoopTrans", "OMPLoopTrans",
       "OMPLoopTrans", "OMPParallelLoopTrans", "OMPSingleTrans",
       "OMPMasterTrans", "OMPTargetTrans", "OMPTaskloopTrans",
       "OMPTaskwaitTrans"]
ACC = ["ACCParallelTrans", "ACCParallelTrans", "ACCLoopTrans", "ACCLoopTrans",
       "ACCLoopTrans", "ACCKernelsTrans", "ACCDataTrans", "ACCEnterDataTrans",
       "ACCUpdateTrans", "ACCRoutineTrans"]
STRUCT = ["LoopSwapTrans", "ChunkLoopTrans", "LoopFuseTrans", "MoveTrans"]
SAFE_OPTS = [i for i, o in enumerate(hm.OPTIONS)
             if not (o and o.get("force"))]


def plan(tier):
    if tier == "thorough":
        return {"runs": 40000, "slice": 50, "budget_s": 2400,
                "slice_timeout_s": 1200}
    return {"runs": 1200, "slice": 20, "budget_s": 150,
            "slice_timeout_s": 900}


# --------------------------------------------------------------------------
# structural scanner over the written text
# --------------------------------------------------------------------------
NAME_WORDS = {"parallel", "do", "single", "master", "target", "taskloop",
              "teams", "distribute", "loop", "task", "data", "kernels",
              "enter", "exit", "update", "routine", "declare", "taskwait",
              "barrier", "simd"}
STANDALONE = {"taskwait", "barrier", "declare target", "enter data",
              "exit data", "update", "routine"}


def directive_name(body):
    words = []
    for w in re.split(r"[\s,]+", body.strip()):
        w0 = w.split("(")[0]
        if w0 in NAME_WORDS and "(" not in w:
            words.append(w0)
        else:
            if w0 in NAME_WORDS and not words:
                words.append(w0)
            break
    return " ".join(words)


def scan_structure(text):
    """The three structural rules named by the property, checked on the
    directive lines of the written text.  Returns None or (rule, detail)."""
    lines = [ln.strip().lower() for ln in text.split("\n")]
    # "!$acc routine" licenses orphaned loop directives in *its own*
    # program unit only
    unit_of = []
    unit = 0
    routine_units = set()
    for ln in lines:
        if re.match(r"(subroutine|function)\s+\w+", ln):
            unit += 1
        unit_of.append(unit)
        if ln.startswith("!$acc routine"):
            routine_units.add(unit)
    stack = []      # (model, name) of open constructs
    for i, ln in enumerate(lines):
        if not (ln.startswith("!$omp") or ln.startswith("!$acc")):
            continue
        has_acc_routine = unit_of[i] in routine_units
        model = ln[2:5]
        body = ln[5:].strip()
        if body.startswith("end "):
            name = directive_name(body[4:])
            for k in range(len(stack) - 1, -1, -1):
                if stack[k] == (model, name):
                    del stack[k:]
                    break
            continue
        name = directive_name(body)
        mine = [nm for (md, nm) in stack if md == model]
        if model == "omp":
            if name.startswith("parallel") and any("parallel" in nm
                                                   for nm in mine):
                return ("parallel-region-nested-in-parallel-region",
                        {"line": i + 1, "text": ln})
            if name == "do" and not any("parallel" in nm for nm in mine):
                return ("loop-directive-outside-parallel-region",
                        {"line": i + 1, "text": ln})
            if name == "loop" and not any(
                    ("parallel" in nm or "teams" in nm or "target" in nm)
                    for nm in mine):
                return ("loop-directive-outside-parallel-region",
                        {"line": i + 1, "text": ln})
        else:
            if name in ("parallel", "kernels") and any(
                    nm in ("parallel", "kernels") for nm in mine):
                return ("parallel-region-nested-in-parallel-region",
                        {"line": i + 1, "text": ln})
            if name == "loop" and not has_acc_routine and not any(
                    nm in ("parallel", "kernels") for nm in mine):
                return ("loop-directive-outside-parallel-region",
                        {"line": i + 1, "text": ln})
        m = re.search(r"collapse\((\d+)\)", body)
        if m:
            bad = check_collapse(lines, i, int(m.group(1)))
            if bad:
                return ("collapse-count-does-not-match-perfect-nest",
                        {"line": i + 1, "text": ln, "why": bad})
        if name in STANDALONE or (model == "acc" and name == "loop"):
            continue
        stack.append((model, name))
    return None


def check_collapse(lines, start, n):
    j = start + 1
    depth = 0
    for level in range(n):
        while j < len(lines) and (lines[j] == "" or
                                  lines[j].startswith("!$acc loop") and
                                  level > 0):
            j += 1
        if j >= len(lines) or not re.match(r"do\s+\w+\s*=", lines[j]):
            return f"expected DO at nest level {level + 1}, found: " + \
                (lines[j] if j < len(lines) else "<eof>")
        j += 1
    # find the end of the innermost loop
    depth = 1
    while j < len(lines) and depth > 0:
        if re.match(r"do\s+\w+\s*=", lines[j]) or lines[j] == "do" or \
                lines[j].startswith("do while"):
            depth += 1
        elif re.match(r"end\s*do", lines[j]):
            depth -= 1
        j += 1
    for level in range(n - 1):
        while j < len(lines) and lines[j] == "":
            j += 1
        if j >= len(lines) or not re.match(r"end\s*do", lines[j]):
            return "statements follow the inner loop inside a collapsed " \
                   "loop: " + (lines[j] if j < len(lines) else "<eof>")
        j += 1
    return None


# --------------------------------------------------------------------------
def judge(root):
    """Returns (violation-or-None, status)."""
    from psyclone.psyir.backend.fortran import FortranWriter
    from psyclone.errors import GenerationError
    from psyclone.psyir.backend.visitor import VisitorError
    try:
        text = FortranWriter()(root)
    except (GenerationError, VisitorError) as err:
        return None, "writer-refused"
    except Exception as err:
        return None, "writer-other-exception:" + type(err).__name__
    if "!$omp" not in text.lower() and "!$acc" not in text.lower():
        return None, "no-directives"
    bad = scan_structure(text)
    if bad:
        return {"class": "writer-emitted-invalid-structure:" + bad[0],
                "observed": {"detail": bad[1], "text": text}}, "text"
    errs, _ = gfcheck.compile_text(text, ["-fopenmp", "-fopenacc"],
                                   full=True)
    derrs = [e for e in errs if gfcheck.is_directive_error(e)]
    if derrs:
        msg = re.sub(r"\(\d+\)", "(N)", derrs[0][0])
        return {"class": "compiler-rejects-directives",
                "observed": {"error": derrs[0][0], "line": derrs[0][1],
                             "all": [e[0] for e in derrs[:4]],
                             "text": text}}, "text"
    return None, "text"


def run_history(prog, ops, counters=None, log=None):
    root = c26.parse(prog)
    cl = c26.classes()
    accepted_dir = 0
    produced = 0
    pattern = []
    for step, op in enumerate(ops):
        res = hm.apply_op(root, op, cl)
        st = res["status"]
        if counters is not None:
            counters.inc2("outcomes", st)
        pattern.append((op["cls"], res["desc"]["target"],
                        res["desc"]["opts"], st))
        if st == "other-exception":
            if counters is not None:
                counters.inc2("aborted_internal_error", op["cls"] + ":" +
                              res["err"].split(":")[0])
            break
        if st != "accepted":
            if st == "refused" and counters is not None:
                counters.inc2("faults_fired", "refusal")
            continue
        if op["cls"] not in STRUCT:
            accepted_dir += 1
        vio, status = judge(root)
        if counters is not None:
            counters.inc2("writer", status.split(":")[0])
        if status == "text":
            produced += 1
        if log is not None:
            log.append((op["cls"], st, status))
        if vio is not None:
            vio["step"] = step
            return dict(vio, accepted=accepted_dir, produced=produced,
                        pattern=pattern)
    return {"class": None, "accepted": accepted_dir, "produced": produced,
            "pattern": pattern}


def gen_history(rng):
    model = pick(rng, ["omp", "omp", "acc"])
    names = (OMP if model == "omp" else ACC)
    ops = []
    for _ in range(rng.randint(2, 7)):
        if rng.random() < 0.15:
            name = pick(rng, STRUCT)
        else:
            name = pick(rng, names)
        op = hm.gen_op(rng, [name])
        op["opt"] = pick(rng, SAFE_OPTS) if rng.random() < 0.6 else \
            len(hm.OPTIONS)
        if name in ("OMPLoopTrans", "OMPParallelLoopTrans", "ACCLoopTrans") \
                and rng.random() < 0.3:
            op["opt"] = pick(rng, [3, 3, 4])     # collapse 2 / 3
        ops.append(op)
    return model, ops


def shrink(prog, ops, cls):
    def fails(p, o):
        try:
            return run_history(p, o)["class"] == cls
        except Exception:
            return False
    res = run_history(prog, ops)
    if res["class"] != cls:
        return prog, ops
    ops = ops[:res["step"] + 1]
    i = len(ops) - 2
    while i >= 0:
        cand = ops[:i] + ops[i + 1:]
        if fails(prog, cand):
            ops = cand
        i -= 1
    progress = True
    rounds = 0
    while progress and rounds < 60:
        progress = False
        rounds += 1
        for cand in richgen.shrink_candidates(prog):
            if fails(cand, ops):
                prog = cand
                progress = True
                break
    return prog, ops


def features(rep):
    """Root-cause features of a minimised failing history."""
    text = (rep.get("observed") or {}).get("text", "").lower()
    hist = [o["cls"] for o in rep["schedule"]]
    feats = {"mixed_models": "!$omp" in text and "!$acc" in text,
             "collapse": "collapse(" in text,
             "classes": sorted(set(hist))}
    return feats


def run_one(seed, index, tier):
    counters = Counters()
    rng_p = stream(seed, "program")
    rng_h = stream(seed, "history")
    prog = richgen.gen_program(rng_p)
    model, ops = gen_history(rng_h)
    counters.inc2("models", model)
    log = []
    try:
        res = run_history(prog, ops, counters, log)
    except Exception as err:
        counters.inc2("aborted_internal_error",
                      "harness-or-frontend:" + type(err).__name__)
        return {"counters": counters, "steps": 0, "violations": [],
                "log_digest": digest(["abort", type(err).__name__])}
    out = {"counters": counters, "steps": len(log), "violations": [],
           "log_digest": digest(log)}
    if res["class"] is not None:
        cls = res["class"]
        mprog, mops = shrink(prog, ops, cls)
        final = run_history(mprog, mops)
        rep = {"property": PROPERTY, "engine": ENGINE, "engine_version": 1,
               "seed": seed, "run_index": index, "violation_class": cls,
               "scenario": {"program": mprog,
                            "fortran": richgen.program_text(mprog)},
               "schedule": mops, "faults": "none injected",
               "observed": final.get("observed")}
        rep["features"] = features(rep)
        out["violations"].append({"class": cls, "replay": rep})
        return out
    if res["accepted"] >= 1 and res["produced"] >= 1:
        out["digest"] = digest([prog, res["pattern"]])
        if index < 24 or index % 199 == 0:
            out["sample"] = {"history": res["pattern"], "model": model}
    return out


def replay(rep):
    res = run_history(rep["scenario"]["program"], rep["schedule"])
    if res["class"] is None:
        return None
    obs = dict(res.get("observed") or {})
    obs.pop("text", None)
    return {"class": res["class"], "observed": obs}


def signature_match(sig, vio):
    if vio["class"] != sig.get("class"):
        return False
    feats = vio["replay"].get("features", {})
    obs = vio["replay"].get("observed") or {}
    if "error_contains" in sig and sig["error_contains"] not in \
            obs.get("error", ""):
        return False
    if "classes_subset" in sig and not set(feats.get("classes", [])) <= \
            set(sig["classes_subset"]):
        return False
    if "needs_class" in sig and sig["needs_class"] not in \
            feats.get("classes", []):
        return False
    if "line_contains" in sig and sig["line_contains"] not in \
            (obs.get("line") or "").lower():
        return False
    return True


def harvest_key(vio):
    obs = vio["replay"].get("observed") or {}
    err = re.sub(r"[\u2018\u2019'].*?[\u2018\u2019']", "X",
                 obs.get("error", ""))[:60]
    return err + "|" + "+".join(vio["replay"].get("features", {}).get(
        "classes", []))
