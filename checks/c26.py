"""C26 - a rejected transformation leaves the code unchanged.

Engine E4: seeded histories of real transformations on generated modules.
Every TransformationError raised by apply() - wherever inside apply() it is
raised - must leave (written code, every symbol table, tree) exactly as it
was before the attempt.  DESIGN 4.7.
"""
from simkit.core import stream, digest, pick, Counters
from simkit import richgen, histmachine as hm

PROPERTY = "C26"
ENGINE = "E4-transhistory"
LEVEL = "exploration"
RULE = ("Seeded modules (richgen: loops, array notation, SUM/MATMUL/ABS/MIN/"
        "MAX/SIGN/DOT_PRODUCT intrinsics, calls to an inlinable helper with "
        "clashing locals, RETURN, CodeBlocks) x histories of <=8 operations "
        "drawn from all 57 concrete transformation classes (constructor "
        "variants, 23 option dicts, target chosen by seeded index into "
        "walk(Node), 85% of the time among nodes of the class's preferred "
        "kind). After every TransformationError the snapshot (FortranWriter "
        "text, all symbol tables incl. tags/argument lists, node-by-node "
        "tree digest with symbol identities) must equal the snapshot before. "
        "Non-trivial: history with >=1 accepted and >=1 refused operation. "
        "Distinct by (program digest, [(class, target kind, option keys, "
        "outcome, refusal site)]).")
REAL_VS_STUB = {
    "fparser2 front end, PSyIR, every transformation's validate/apply, "
    "symbol tables, FortranWriter": "real code from /repo",
    "fault": "none injected: the crash point is the TransformationError the "
             "transformation itself raises part-way through apply(); "
             "mutation observers (verif-side wrappers on ChildrenList and "
             "SymbolTable mutators) classify each refusal as early or late",
    "scheduler/clock": "none (single-threaded history)"}
ASSUMPTIONS = [
    "Only TransformationError counts as a refusal (the property's wording); "
    "any other exception type abandons the run and is counted.",
    "The snapshot is best effort on the text component: if the writer "
    "refuses before the attempt, the structural components still decide.",
    "LFRic/GOcean-specific transformations meet only generic PSyIR here "
    "(their early refusals); PSy-layer schedules are covered by sub-batch "
    "'psylayer' (LFRic and GOcean example invokes)."]

_CLASSES = {}


def classes():
    if not _CLASSES:
        _CLASSES.update(hm.all_classes())
    return _CLASSES


def plan(tier):
    if tier == "thorough":
        return {"runs": 60000, "slice": 40, "budget_s": 2400,
                "slice_timeout_s": 1200}
    return {"runs": 480, "slice": 8, "budget_s": 150,
            "slice_timeout_s": 900}


def parse(prog):
    from psyclone.psyir.frontend.fortran import FortranReader
    return FortranReader().psyir_from_source(richgen.program_text(prog))


def run_history(prog, ops, counters=None, log=None, observer=None):
    """Returns dict(class=None|..., ...)."""
    root = parse(prog)
    if observer is not None:
        observer.root = root
    cl = classes()
    before = hm.snapshot(root)
    accepted = refused = 0
    pattern = []
    for step, op in enumerate(ops):
        res = hm.apply_op(root, op, cl, observer)
        st = res["status"]
        if counters is not None:
            counters.inc2("outcomes", st)
        if st == "refused":
            refused += 1
            after = hm.snapshot(root)
            late = res.get("late", 0) > 0
            if counters is not None:
                counters.inc2("refusals_by_site", res["site"] +
                              (" [late]" if late else " [early]"))
                counters.inc2("faults_fired", "late-refusal" if late
                              else "early-refusal")
            if after != before:
                return {"class": "refused-transformation-changed-state:" +
                        op["cls"], "step": step,
                        "observed": {"op": res["desc"],
                                     "refusal": res["err"],
                                     "site": res["site"],
                                     "diff": hm.diff_snapshots(before,
                                                               after)}}
        elif st == "accepted":
            accepted += 1
            try:
                before = hm.snapshot(root)
            except Exception as err:
                if counters is not None:
                    counters.inc2("aborted_internal_error",
                                  "snapshot:" + type(err).__name__)
                break
        elif st == "other-exception":
            if counters is not None:
                counters.inc2("aborted_internal_error",
                              res["desc"]["cls"] + ":" +
                              res["err"].split(":")[0])
            break       # state may be anything now: abandon the run
        pattern.append((res["desc"]["cls"], res["desc"]["target"],
                        res["desc"]["opts"], st, res.get("site")))
        if log is not None:
            log.append((res["desc"]["cls"], st, res.get("site"),
                        digest(before["tree"])))
    return {"class": None, "accepted": accepted, "refused": refused,
            "pattern": pattern}


def shrink(prog, ops, cls):
    def fails(p, o):
        try:
            return run_history(p, o)["class"] == cls
        except Exception:
            return False
    # the failing op is the last one executed: drop later ones first
    res = run_history(prog, ops)
    if res["class"] != cls:
        return prog, ops
    ops = ops[:res["step"] + 1]
    i = len(ops) - 2
    while i >= 0:
        cand = ops[:i] + ops[i + 1:]
        if fails(prog, cand):
            ops = cand
        i -= 1
    progress = True
    rounds = 0
    while progress and rounds < 60:
        progress = False
        rounds += 1
        for cand in richgen.shrink_candidates(prog):
            if fails(cand, ops):
                prog = cand
                progress = True
                break
    return prog, ops


COMPOSITE = {"LoopTiling2DTrans", "InlineTrans", "KernelModuleInlineTrans",
             "ArrayAssignment2LoopsTrans", "AllArrayAccess2LoopTrans",
             "ArrayAccess2LoopTrans", "Sign2CodeTrans", "Abs2CodeTrans",
             "Min2CodeTrans", "Max2CodeTrans", "Matmul2CodeTrans",
             "DotProduct2CodeTrans", "Sum2LoopTrans", "Product2LoopTrans",
             "Maxval2LoopTrans", "Minval2LoopTrans", "OMPTaskTrans",
             "OMPTaskloopTrans", "HoistLocalArraysTrans", "ChunkLoopTrans",
             "OMPParallelLoopTrans", "ACCLoopTrans", "OMPLoopTrans",
             "Reference2ArrayRangeTrans", "ReplaceInductionVariablesTrans"}


def rebuild(prog, base_ops, observer):
    """State = program + the accepted operations of the random history."""
    root = parse(prog)
    cl = classes()
    for op in base_ops:
        hm.apply_op(root, op, cl)
    observer.root = root
    return root


def sweep(prog, rng, names, counters, log, observer, base_ops=()):
    """Returns (violation result, ops) or (None, None)."""
    from psyclone.psyir.nodes import Node
    cl = classes()
    # transformations whose apply() runs several steps (nested apply()
    # calls, mutate-then-check) are where a late refusal can happen: they
    # get most of the sweep's attention
    weights = [5.0 if n in COMPOSITE else 1.0 for n in names]
    chosen = []
    while len(chosen) < 5:
        pick_ = rng.choices(names, weights)[0]
        if pick_ not in chosen:
            chosen.append(pick_)
    base_ops = list(base_ops)
    root = rebuild(prog, base_ops, observer)
    before = hm.snapshot(root)
    for name in chosen:
        pref = hm.TABLE.get(name, ((), "node"))[0]
        if not pref:
            continue
        count = sum(1 for n in root.walk(Node)
                    if type(n).__name__ in pref or
                    any(c.__name__ in pref for c in type(n).__mro__))
        optk = rng.randrange(len(hm.OPTIONS) * 2)
        coptk = rng.randrange(16) if (name in hm.CLASS_OPTIONS and
                                      rng.random() < 0.7) else None
        for k in range(min(count, 14)):
            op = {"cls": name, "ctor": 0, "t": k, "t2": k + 1, "pref": True,
                  "span": 1, "opt": optk, "copt": coptk}
            res = hm.apply_op(root, op, cl, observer)
            st = res["status"]
            counters.inc2("outcomes", "sweep-" + st)
            log.append(("sweep", name, k, st, res.get("site")))
            if st == "refused":
                late = res.get("late", 0) > 0
                counters.inc2("refusals_by_site", res["site"] +
                              (" [late]" if late else " [early]"))
                counters.inc2("faults_fired", "late-refusal" if late
                              else "early-refusal")
                after = hm.snapshot(root)
                if after != before:
                    return ({"class":
                             "refused-transformation-changed-state:" + name,
                             "step": 0,
                             "observed": {"op": res["desc"],
                                          "refusal": res["err"],
                                          "site": res["site"],
                                          "diff": hm.diff_snapshots(
                                              before, after)}},
                            base_ops + [op])
            else:
                if st == "other-exception":
                    counters.inc2("aborted_internal_error",
                                  name + ":" + res["err"].split(":")[0])
                root = rebuild(prog, base_ops, observer)
                before = hm.snapshot(root)
    return None, None


def run_one(seed, index, tier):
    counters = Counters()
    rng_p = stream(seed, "program")
    rng_h = stream(seed, "history")
    prog = richgen.gen_program(rng_p)
    names = sorted(classes())
    # swarm: a per-run subset of classes gets most of the weight
    focus = set(rng_h.sample(names, rng_h.randint(4, 12)))
    weights = [6.0 if n in focus else 1.0 for n in names]
    ops = [hm.gen_op(rng_h, names, weights)
           for _ in range(rng_h.randint(3, 8))]
    log = []
    obs = hm.MutationObserver().install()
    try:
        try:
            res = run_history(prog, ops, counters, log, obs)
        except Exception as err:
            counters.inc2("aborted_internal_error",
                          "harness-or-frontend:" + type(err).__name__)
            return {"counters": counters, "steps": 0, "violations": [],
                    "log_digest": digest(["abort", type(err).__name__])}
    finally:
        obs.uninstall()
    out = {"counters": counters, "steps": len(log), "violations": [],
           "log_digest": digest(log)}
    if res["class"] is None:
        # sweep: a seeded handful of classes is applied to *every* node of
        # its preferred kind in the initial program (one-operation
        # histories), which reaches refusal sites that need one specific
        # (class, node) pairing
        obs = hm.MutationObserver().install()
        try:
            # half of the sweeps start from the state the random history
            # produced (its accepted operations), half from the program
            accepted_ops = [op for op, pat in zip(ops, res["pattern"])
                            if pat[3] == "accepted"]
            base = accepted_ops if (index % 2 == 1 and
                                    len(res["pattern"]) == len(ops)) else []
            sres, sops = sweep(prog, rng_h, names, counters, log, obs, base)
        except Exception as err:
            counters.inc2("aborted_internal_error",
                          "sweep:" + type(err).__name__)
            sres, sops = None, None
        finally:
            obs.uninstall()
        out["steps"] = len(log)
        out["log_digest"] = digest(log)
        if sres is not None:
            res_acc, res_ref = res["accepted"], res["refused"]
            res = dict(sres, accepted=res_acc, refused=res_ref,
                       pattern=res["pattern"])
            ops = sops
    if res["class"] is not None:
        cls = res["class"]
        mprog, mops = shrink(prog, ops, cls)
        final = run_history(mprog, mops)
        out["violations"].append({
            "class": cls,
            "replay": {"property": PROPERTY, "engine": ENGINE,
                       "engine_version": 1, "seed": seed, "run_index": index,
                       "violation_class": cls,
                       "scenario": {"program": mprog,
                                    "fortran": richgen.program_text(mprog)},
                       "schedule": mops,
                       "faults": "the TransformationError raised inside "
                                 "apply()",
                       "observed": final.get("observed")}})
        return out
    if res["accepted"] >= 1 and res["refused"] >= 1:
        out["digest"] = digest([prog, res["pattern"]])
        if index < 24 or index % 199 == 0:
            out["sample"] = {"fortran": richgen.program_text(prog),
                             "history": res["pattern"]}
    return out


def replay(rep):
    res = run_history(rep["scenario"]["program"], rep["schedule"])
    if res["class"] is None:
        return None
    return {"class": res["class"], "observed": res.get("observed")}


def signature_match(sig, vio):
    if vio["class"] != sig.get("class"):
        return False
    need = sig.get("site")
    if need and need != (vio["replay"].get("observed") or {}).get("site"):
        return False
    return True
