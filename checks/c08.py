"""C08 - loops reported parallelisable have no loop-carried dependence.

Engine E3: for every loop of a seeded program the real dependency analysis
is asked; when it answers "independent" the loop is executed with each
iteration as a task (serial order and permuted orders) while the
interpreter records every memory access, and the recorded history is
checked against the Bernstein conditions with the statement's exemption.
Liveness ("the analysis answers") is a bounded-step check.  DESIGN 4.3.
"""
import signal
import sys

from simkit.core import stream, digest, pick, Counters
from simkit import fgen, interp
from checks import c09

PROPERTY = "C08"
ENGINE = "E3-itertasks"
LEVEL = "exploration"
RULE = ("Seeded Fortran routines as for C09 plus scalars named d_<v>/d1_<v>; "
        "DependencyTools().can_loop_be_parallelised is called on every loop "
        "at every nest level. Each loop judged independent is executed with "
        "iterations as tasks in serial, reversed and one seeded permuted "
        "order on seeded inputs (index arrays with repeats) with per-"
        "iteration access recording. Non-trivial: a loop judged independent "
        "that executed >=2 iterations. Distinct by (program digest, loop "
        "position, order, n).")
REAL_VS_STUB = {
    "fparser2 front end, PSyIR, DependencyTools, SymPy writer, "
    "VariablesAccessInfo": "real code from /repo",
    "Fortran execution + access tracing": "stub: simkit/interp.py",
    "scheduler": "iteration order of the analysed loop is chosen by the "
                 "checker (serial, reversed, seeded permutation)"}
ASSUMPTIONS = [
    "Bernstein conditions are evaluated on the dynamic trace for the given "
    "inputs only (n<=8).",
    "Scalar exemption as stated in the property: every executed iteration of "
    "the loop instance writes the scalar before reading it.",
    "Termination is judged in interpreter line events (20M), not seconds; a "
    "5 s SIGALRM only decides whether the traced re-run is needed."]

LINE_BUDGET = 20_000_000


def plan(tier):
    if tier == "thorough":
        return {"runs": 150000, "slice": 500, "budget_s": 2400,
                "slice_timeout_s": 1200}
    return {"runs": 6400, "slice": 100, "budget_s": 150,
            "slice_timeout_s": 600}


class _Timeout(Exception):
    pass


class _Budget(Exception):
    pass


def bounded_call(fn, budget=LINE_BUDGET, alarm_s=5):
    """Returns ("ok", result) | ("no-answer", lines) | ("error", exc)."""
    def on_alarm(signum, frame):
        raise _Timeout()
    old = signal.signal(signal.SIGALRM, on_alarm)
    signal.alarm(alarm_s)
    try:
        res = fn()
        signal.alarm(0)
        return ("ok", res)
    except _Timeout:
        pass
    except Exception as err:
        signal.alarm(0)
        return ("error", err)
    finally:
        signal.alarm(0)
        signal.signal(signal.SIGALRM, old)
    # deterministic re-run under a line-event budget
    count = [0]

    def tracer(frame, event, arg):
        if event == "line":
            count[0] += 1
            if count[0] > budget:
                raise _Budget()
        return tracer
    sys.settrace(tracer)
    try:
        res = fn()
        return ("ok", res)
    except _Budget:
        return ("no-answer", count[0])
    except Exception as err:
        return ("error", err)
    finally:
        sys.settrace(None)


def loop_path(loop):
    """Position of a loop in the routine as a list of child indices."""
    path = []
    node = loop
    while node.parent is not None and type(node).__name__ != "Routine":
        path.append(node.position)
        node = node.parent
    return list(reversed(path))


def find_by_path(routine, path):
    node = routine
    for pos in path:
        node = node.children[pos]
    return node


def trace_loop(routine, target, inputs, order_kind, order_seed):
    """Execute the routine; for the target loop record accesses per
    (instance, iteration).  Returns list of instances, each a dict
    iteration -> [(kind, loc), ...]."""
    import random
    store = interp.make_store(inputs)
    ctx = interp.Ctx()
    state = {"instance": -1, "iter": None, "inside": 0}
    instances = []
    prng = random.Random(order_seed)

    def loop_hook(node, what):
        if node is target:
            if what == "enter":
                state["instance"] += 1
                instances.append({})
                state["inside"] = 1
            else:
                state["inside"] = 0
                state["iter"] = None

    def iter_hook(node, env, it):
        if node is target:
            state["iter"] = it
            instances[-1].setdefault(it, [])

    def order_hook(node, count):
        if node is target:
            if order_kind == "reversed":
                return list(range(count - 1, -1, -1))
            if order_kind == "permuted":
                order = list(range(count))
                prng.shuffle(order)
                return order
        return range(count)

    def rec(kind, loc):
        if state["inside"] and state["iter"] is not None:
            instances[-1][state["iter"]].append((kind, loc))
    ctx.loop_hook = loop_hook
    ctx.iter_hook = iter_hook
    ctx.order_hook = order_hook
    env = interp.Env(store)
    env.rec = rec
    try:
        for _ in interp.exec_block(routine.children, env, ctx):
            pass
    except interp._Return:
        pass
    return instances


def bernstein(instances, loopvar):
    """Returns None or a conflict description."""
    for inst_no, inst in enumerate(instances):
        if len(inst) < 2:
            continue
        touched = {}
        for it, accs in inst.items():
            first = {}
            for kind, loc in accs:
                first.setdefault(loc, kind)
                slot = touched.setdefault(loc, {"R": set(), "W": set(),
                                                "first": {}})
                slot[kind].add(it)
            for loc, kind in first.items():
                touched[loc]["first"][it] = kind
        for loc in sorted(touched, key=repr):
            slot = touched[loc]
            if not slot["W"]:
                continue
            others = (slot["R"] | slot["W"])
            if len(others) < 2 and len(slot["W"]) < 2:
                continue
            conflict = any(w != o for w in slot["W"] for o in others)
            if not conflict:
                continue
            if len(loc) == 1:
                # scalar exemption: every executed iteration writes it
                # before reading it
                if loc[0] == loopvar:
                    continue
                exempt = all(slot["first"].get(it) == "W" for it in inst)
                if exempt:
                    continue
            w = sorted(slot["W"])[:3]
            return {"location": list(loc), "writers": w,
                    "readers": sorted(slot["R"])[:3],
                    "instance": inst_no,
                    "kind": "scalar" if len(loc) == 1 else "array"}
    return None


def analyse(prog, inputs, orders, counters=None, only_path=None):
    """Run the real analysis on every loop; trace the ones it accepts.
    Returns (violations, stats)."""
    from psyclone.psyir.frontend.fortran import FortranReader
    from psyclone.psyir.nodes import Routine, Loop
    from psyclone.psyir.tools import DependencyTools
    text = fgen.program_text(prog)
    psyir = FortranReader().psyir_from_source(text)
    routine = psyir.walk(Routine)[0]
    vios = []
    stats = {"loops": 0, "independent": 0, "traced_multi_iter": 0,
             "digests": [], "steps": 0}
    for loop in routine.walk(Loop):
        path = loop_path(loop)
        if only_path is not None and path != only_path:
            continue
        stats["loops"] += 1
        status, res = bounded_call(
            lambda lp=loop: DependencyTools().can_loop_be_parallelised(lp))
        if status == "no-answer":
            vios.append({"class": "analysis-did-not-terminate",
                         "path": path, "observed": {"line_events": res,
                                                    "budget": LINE_BUDGET}})
            continue
        if status == "error":
            if counters is not None:
                counters.inc2("aborted_internal_error",
                              type(res).__name__)
            continue
        if counters is not None:
            counters.inc2("answers", str(bool(res)))
        if not res:
            continue
        stats["independent"] += 1
        var = loop.variable.name.lower()
        for okind, oseed in orders:
            try:
                instances = trace_loop(routine, loop, inputs, okind, oseed)
            except interp.RuntimeFault as err:
                if counters is not None:
                    counters.inc2("discarded", err.kind + ":" + okind)
                continue
            except interp.Unsupported:
                if counters is not None:
                    counters.inc2("discarded", "unsupported")
                break
            stats["steps"] += sum(len(a) for inst in instances
                                  for a in inst.values())
            if counters is not None:
                counters.inc2("faults_fired", "iteration-order:" + okind)
            if any(len(i) >= 2 for i in instances):
                stats["traced_multi_iter"] += 1
                stats["digests"].append(digest([prog, path, okind,
                                                inputs["n"]]))
            bad = bernstein(instances, var)
            if bad is not None:
                vios.append({"class": "loop-carried-" + bad["kind"] +
                             "-dependence-in-loop-reported-independent",
                             "path": path, "order": okind,
                             "observed": bad})
                break
    return vios, stats


def fails_with(prog, inputs, orders, cls, path):
    try:
        vios, _ = analyse(prog, inputs, orders, only_path=None)
    except Exception:
        return None
    for v in vios:
        if v["class"] == cls:
            return v
    return None


def minimise(prog, inputs, orders, cls, path):
    best = fails_with(prog, inputs, orders, cls, path)
    if best is None:
        return prog, inputs, None
    if cls != "analysis-did-not-terminate":
        for n in (2, 3, 4):
            if n < inputs["n"]:
                cand = dict(inputs, n=n)
                got = fails_with(prog, cand, orders, cls, path)
                if got:
                    inputs, best = cand, got
                    break
    progress = True
    rounds = 0
    while progress and rounds < 40:
        progress = False
        rounds += 1
        for cand in _candidates(prog):
            got = fails_with(cand, inputs, orders, cls, path)
            if got:
                prog, best = cand, got
                progress = True
                break
    return prog, inputs, best


def _candidates(prog):
    import copy
    # unlike C09 the last statement may be deleted as well
    positions = c09._stmt_lists(prog)
    for k in range(len(positions) - 1, -1, -1):
        cand = copy.deepcopy(prog)
        lst, i = c09._stmt_lists(cand)[k]
        st = lst[i]
        if not (lst is cand["body"] and len(lst) == 1):
            del lst[i]
            yield cand
        if st["k"] == "if":
            cand = copy.deepcopy(prog)
            lst, i = c09._stmt_lists(cand)[k]
            lst[i:i + 1] = lst[i]["then"]
            yield cand
    for cand in c09._candidates(prog):
        yield cand


def _ast_loop(prog, path):
    """The statement of the JSON program at a PSyIR child-index path
    (statement index, then 3 = loop body / 1,2 = if/else body, ...)."""
    cur = prog["body"]
    i = 0
    st = None
    while i < len(path):
        if path[i] >= len(cur):
            return None
        st = cur[path[i]]
        i += 1
        if i >= len(path):
            return st
        sel = path[i]
        i += 1
        if st["k"] == "do" and sel == 3:
            cur = st["body"]
        elif st["k"] == "if" and sel in (1, 2):
            cur = st["then"] if sel == 1 else st.get("else", [])
        else:
            return None
    return st


def features(prog, vio):
    """Root-cause features of the minimised program, relative to the loop
    the analysis was asked about."""
    feats = c09.features(prog, {})
    # for C08 no clauses exist: a scalar whose first write *in the analysed
    # loop's body* is conditional
    first_write = {}

    def scan(stmts, under_if):
        for st in stmts:
            if st["k"] == "assign" and st["lhs"]["k"] == "ref":
                first_write.setdefault(st["lhs"]["n"], under_if)
            elif st["k"] == "if":
                scan(st["then"], True)
                scan(st.get("else", []), True)
            elif st["k"] == "do":
                # the loop machinery writes the loop variable
                first_write.setdefault(st["var"], under_if)
                scan(st["body"], under_if)
    target = _ast_loop(prog, vio.get("path") or
                       vio["observed"].get("loop_path") or [])
    if target is not None and target["k"] == "do":
        scan(target["body"], False)
    else:
        scan(prog["body"], False)
    feats["cond_first_write_scalar"] = sorted(
        n for n, u in first_write.items() if u)
    loc = vio["observed"].get("location", [None])
    feats["conflict_scalar"] = loc[0] if len(loc) == 1 else None
    return feats


def run_one(seed, index, tier):
    counters = Counters()
    rng_p = stream(seed, "program")
    rng_i = stream(seed, "inputs")
    rng_o = stream(seed, "schedule")
    prog = fgen.gen_program(rng_p, mode="dep")
    inputs = fgen.gen_inputs(rng_i)
    orders = [("serial", 0), ("reversed", 0),
              ("permuted", rng_o.randrange(1 << 30))]
    out = {"counters": counters, "steps": 0, "violations": [],
           "digests": []}
    try:
        vios, stats = analyse(prog, inputs, orders, counters)
    except Exception as err:
        counters.inc2("aborted_internal_error", type(err).__name__)
        out["log_digest"] = digest(["abort", type(err).__name__])
        return out
    out["steps"] = stats.get("steps", 0)
    counters.inc("loops_analysed", stats["loops"])
    counters.inc("loops_reported_independent", stats["independent"])
    counters.inc("independent_loops_traced_with_2plus_iterations",
                 stats["traced_multi_iter"])
    out["digests"] = stats["digests"]
    if stats["digests"]:
        out["digest"] = digest(sorted(stats["digests"]))
    seen = set()
    for vio in vios:
        if vio["class"] in seen:
            continue
        seen.add(vio["class"])
        mprog, minputs, best = minimise(prog, inputs, orders, vio["class"],
                                        vio["path"])
        if best is None:
            mprog, minputs, best = prog, inputs, vio
        out["violations"].append({
            "class": vio["class"],
            "replay": {"property": PROPERTY, "engine": ENGINE,
                       "engine_version": 1, "seed": seed, "run_index": index,
                       "violation_class": vio["class"],
                       "scenario": {"program": mprog, "inputs": minputs,
                                    "inputs_n": minputs["n"],
                                    "fortran": fgen.program_text(mprog),
                                    "generated": fgen.program_text(mprog)},
                       "schedule": [list(o) for o in orders],
                       "faults": "none (iteration order is the schedule)",
                       "features": features(mprog, best),
                       "observed": dict(best["observed"],
                                        loop_path=best["path"])}})
    out["log_digest"] = digest([stats["loops"], stats["independent"],
                                [v["class"] for v in vios],
                                stats["digests"]])
    if stats["digests"] and (index < 40 or index % 199 == 0):
        out["sample"] = {"fortran": fgen.program_text(prog).split(
            "integer :: i, j, l")[1], "n": inputs["n"],
            "loops": stats["loops"], "independent": stats["independent"]}
    return out


def replay(rep):
    scn = rep["scenario"]
    orders = [tuple(o) for o in rep["schedule"]]
    got = fails_with(scn["program"], scn["inputs"], orders,
                     rep["violation_class"], None)
    if got is None:
        return None
    return {"class": got["class"], "observed": got["observed"]}


def signature_match(sig, vio):
    if vio["class"] not in sig.get("classes", []):
        return False
    feats = vio["replay"].get("features", {})
    need = sig.get("feature")
    if need == "cond_first_write_scalar":
        return feats.get("conflict_scalar") in feats.get(
            "cond_first_write_scalar", [])
    return bool(feats.get(need))
